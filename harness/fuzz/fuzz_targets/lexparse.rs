//! libFuzzer target for C22 / C23: lexer + both parser entry points with the checks' oracles inside
//! the target (token coverage / contiguity, no panic, bounded work through the cfg hook, tree text ==
//! input, error ranges inside the input). Any violated invariant panics, which libFuzzer records.
#![no_main]
use libfuzzer_sys::fuzz_target;

const LINEAR_A: u64 = 4096;
const LINEAR_B: u64 = 1024;

fuzz_target!(|data: &[u8]| {
    let Ok(text) = std::str::from_utf8(data) else { return };
    if text.len() > 4096 {
        return;
    }
    // bracket nesting beyond the property's bound (200) is out of scope
    let mut depth = 0i32;
    let mut max_depth = 0i32;
    for b in text.bytes() {
        match b {
            b'(' | b'[' | b'{' => {
                depth += 1;
                max_depth = max_depth.max(depth);
            }
            b')' | b']' | b'}' => depth -= 1,
            _ => {}
        }
    }
    if max_depth > 150 {
        return;
    }
    let tokens = lexer::lex(text);
    // C22: the tokens tile the input
    let mut pos = 0u32;
    for i in 0..tokens.len() {
        let range = tokens.range(i);
        assert_eq!(u32::from(range.start()), pos, "C22: gap or overlap before a token");
        assert!(range.end() >= range.start(), "C22: token with start > end");
        pos = u32::from(range.end());
        assert!(text.is_char_boundary(pos as usize), "C22: token ends inside a character");
    }
    assert_eq!(pos as usize, text.len(), "C22: tokens do not cover the input");
    let n = tokens.len() as u64;
    for repl in [false, true] {
        let parse = if repl { parser::parse_repl_line(&tokens, text) } else { parser::parse_source_file(&tokens, text) };
        let steps = parser::verif::last_steps();
        assert!(steps <= LINEAR_A + LINEAR_B * n, "C23: super-linear parser work");
        let tree = parse.syntax_tree();
        let tree_text = tree.root().text(tree).to_string();
        assert_eq!(tree_text, text, "C23: lossy tree");
        for e in parse.errors() {
            let (s, en) = match e.kind {
                parser::SyntaxErrorKind::Missing { offset } => (u32::from(offset), u32::from(offset)),
                parser::SyntaxErrorKind::UnexpectedToken { range, .. } | parser::SyntaxErrorKind::UnexpectedNode { range, .. } => {
                    (u32::from(range.start()), u32::from(range.end()))
                }
            };
            assert!(s <= en && en as usize <= text.len(), "C23: error range outside the input");
        }
    }
});
