//! C17 — type layouts obey the documented representation rules.
//!
//! Through hook H1 (codegen::verif::{calc_layouts, layout_of}). Types up to constructor depth 2
//! are enumerated exhaustively over a pool, depth 3 randomly. Oracle: the rules of the property
//! statement recomputed independently; structs of scalars are also compared with the host C
//! compiler's offsetof / _Alignof / sizeof (64-bit only).

use std::collections::BTreeMap;
use std::io::Write;

use crate::c12::{Universe, skeleton};
use crate::common::*;
use codegen::verif::{LayoutInfo, calc_layouts, layout_of};
use hir::common::{MemberTy, Ty};
use internment::Intern;
use proptest::prelude::*;
use serde_json::json;

fn round_up(x: u32, a: u32) -> u32 {
    if a == 0 { x } else { x.div_ceil(a) * a }
}

struct Checker {
    ptr: u32, // bytes
}

impl Checker {
    fn layout(&self, t: &Ty) -> LayoutInfo {
        layout_of(Intern::new(t.clone()))
    }

    /// documented size of primitives, where the documents fix one
    fn prim_size(&self, t: &Ty) -> Option<u32> {
        Some(match t {
            Ty::IInt(255) | Ty::UInt(255) => self.ptr,
            Ty::IInt(0) | Ty::UInt(0) | Ty::Float(0) => return None, // weak: defaulting is not a layout rule
            Ty::IInt(w) | Ty::UInt(w) | Ty::Float(w) => *w as u32 / 8,
            Ty::Bool | Ty::Char => 1,
            Ty::Type => 4,
            Ty::String | Ty::Pointer { .. } | Ty::RawPtr { .. } | Ty::FunctionPointer { .. } => self.ptr,
            Ty::Slice { .. } | Ty::RawSlice => 2 * self.ptr,
            Ty::Void | Ty::Nil => 0,
            _ => return None,
        })
    }

    fn check(&self, t: &Ty) -> Result<(), (String, String)> {
        let head = crate::c12::head(t);
        let l = match catch(|| self.layout(t)) {
            Ok(l) => l,
            Err(k) => return Err((format!("C17:panic:{head}:{k}"), format!("layout_of panicked for {:?}", t))),
        };
        let fail = |rule: &str, msg: String| -> Result<(), (String, String)> {
            Err((format!("C17:{rule}:{head}"), format!("{msg}\n type: {:?}\n layout: {:?}", t, l)))
        };
        // R1: alignment is a power of two <= 8
        if !(l.align.is_power_of_two() && l.align <= 8) {
            return fail("align-pow2-le8", format!("alignment {} is not a power of two <= 8", l.align));
        }
        // stride: size rounded up to alignment
        if l.stride != round_up(l.size, l.align) {
            return fail("stride", format!("stride {} is not size {} rounded up to alignment {}", l.stride, l.size, l.align));
        }
        if let Some(s) = self.prim_size(t) {
            if l.size != s {
                return fail("primitive-size", format!("size {} but the documented size is {}", l.size, s));
            }
        }
        match t {
            Ty::AnonStruct { members } | Ty::ConcreteStruct { members, .. } => {
                let Some(offsets) = &l.offsets else {
                    return fail("struct-offsets", "struct without member offsets".into());
                };
                if offsets.len() != members.len() {
                    return fail("struct-offsets", format!("{} offsets for {} members", offsets.len(), members.len()));
                }
                let mut prev_end = 0u32;
                for (i, (m, off)) in members.iter().zip(offsets.iter()).enumerate() {
                    let ml = self.layout(&m.ty);
                    if off % ml.align != 0 {
                        return fail("struct-field-misaligned", format!("member {i} at offset {off} is not a multiple of its alignment {}", ml.align));
                    }
                    if *off < prev_end {
                        return fail("struct-field-overlap-or-order", format!("member {i} at offset {off} overlaps / precedes the previous member ending at {prev_end}"));
                    }
                    prev_end = off + ml.size;
                    if l.align < ml.align {
                        return fail("struct-align", format!("struct alignment {} is smaller than member {i}'s alignment {}", l.align, ml.align));
                    }
                }
                if prev_end > l.size {
                    return fail("struct-size", format!("last member ends at {prev_end} beyond the struct size {}", l.size));
                }
            }
            Ty::AnonArray { size, sub_ty } | Ty::ConcreteArray { size, sub_ty } => {
                let el = self.layout(sub_ty);
                if l.size as u64 != *size * el.stride as u64 {
                    return fail("array-size", format!("array size {} != len {} * element stride {}", l.size, size, el.stride));
                }
                if l.align != el.align {
                    return fail("array-align", format!("array alignment {} != element alignment {}", l.align, el.align));
                }
            }
            Ty::Distinct { sub_ty, .. } | Ty::EnumVariant { sub_ty, .. } => {
                let u = self.layout(sub_ty);
                if (l.size, l.align) != (u.size, u.align) {
                    return fail("wrapper-size-align", format!("size/align ({}, {}) differ from the underlying type's ({}, {})", l.size, l.align, u.size, u.align));
                }
            }
            Ty::Optional { sub_ty } if matches!(&**sub_ty, Ty::Pointer { .. } | Ty::RawPtr { .. }) => {
                if l.size != self.ptr || l.align != self.ptr.min(8) {
                    return fail("optional-pointer", format!("optional of a pointer has size {} align {}, expected pointer size {}", l.size, l.align, self.ptr));
                }
            }
            Ty::Optional { sub_ty } if matches!(sub_ty.absolute_ty(), Ty::Pointer { .. } | Ty::RawPtr { .. }) => {
                // a distinct (or variant) of a pointer has the pointer's semantics: Ty::is_non_zero,
                // which the rest of codegen uses to treat `?T` as a nullable pointer, looks through
                // the wrapper, so the layout has to be pointer-sized as well
                if l.size != self.ptr || l.discriminant_offset.is_some() {
                    return fail("optional-wrapped-pointer", format!("optional of a distinct pointer has size {} / tag {:?}, expected a bare pointer ({} bytes)", l.size, l.discriminant_offset, self.ptr));
                }
            }
            Ty::Optional { .. } | Ty::ErrorUnion { .. } | Ty::Enum { .. } => {
                let payloads: Vec<Intern<Ty>> = match t {
                    Ty::Optional { sub_ty } => vec![*sub_ty],
                    Ty::ErrorUnion { error_ty, payload_ty } => vec![*error_ty, *payload_ty],
                    Ty::Enum { variants, .. } => variants.clone(),
                    _ => unreachable!(),
                };
                let mut max_size = 0;
                let mut max_align = 1;
                for p in &payloads {
                    let pl = self.layout(p);
                    max_size = max_size.max(pl.size);
                    max_align = max_align.max(pl.align);
                }
                match l.discriminant_offset {
                    None => return fail("sum-tag-missing", "tagged sum type without a tag offset".into()),
                    Some(off) => {
                        if off != max_size {
                            return fail("sum-tag-offset", format!("tag at offset {off}, but the largest payload is {max_size} bytes"));
                        }
                        if l.size < off + 1 || l.size > round_up(off + 1, l.align) {
                            return fail("sum-size", format!("size {} does not hold a one-byte tag at offset {off}", l.size));
                        }
                    }
                }
                if l.align < max_align {
                    return fail("sum-align", format!("alignment {} is smaller than a payload's alignment {max_align}", l.align));
                }
            }
            _ => {}
        }
        Ok(())
    }
}

fn is_nontrivial(c: &Checker, t: &Ty) -> bool {
    match t {
        Ty::AnonStruct { members } | Ty::ConcreteStruct { members, .. } => {
            let aligns: std::collections::BTreeSet<u32> = members.iter().map(|m| c.layout(&m.ty).align).collect();
            members.len() >= 2 && aligns.len() >= 2
        }
        Ty::Optional { .. } | Ty::ErrorUnion { .. } | Ty::Enum { .. } => true,
        Ty::AnonArray { sub_ty, .. } | Ty::ConcreteArray { sub_ty, .. } | Ty::Distinct { sub_ty, .. } => is_nontrivial(c, sub_ty),
        _ => false,
    }
}

// ---------------------------------------------------------------------------------------------
// gcc comparison for structs of scalars

const C_SCALARS: &[(&str, &str)] = &[
    ("u8", "uint8_t"),
    ("u16", "uint16_t"),
    ("u32", "uint32_t"),
    ("u64", "uint64_t"),
    ("i16", "int16_t"),
    ("f32", "float"),
    ("f64", "double"),
    ("ptr", "void*"),
    ("bool", "uint8_t"),
];

fn scalar_ty(name: &str) -> Ty {
    match name {
        "u8" => Ty::UInt(8),
        "u16" => Ty::UInt(16),
        "u32" => Ty::UInt(32),
        "u64" => Ty::UInt(64),
        "i16" => Ty::IInt(16),
        "f32" => Ty::Float(32),
        "f64" => Ty::Float(64),
        "ptr" => Ty::Pointer { mutable: false, sub_ty: Intern::new(Ty::UInt(8)) },
        "bool" => Ty::Bool,
        _ => unreachable!(),
    }
}

/// field spec: (scalar index, array length or 0)
type Shape = Vec<(usize, u32)>;

fn shape_to_ty(u: &Universe, shape: &Shape, uid: u32) -> Ty {
    let members = shape
        .iter()
        .enumerate()
        .map(|(i, (s, n))| {
            let base = scalar_ty(C_SCALARS[*s].0);
            let ty = if *n == 0 { base } else { Ty::ConcreteArray { size: *n as u64, sub_ty: Intern::new(base) } };
            MemberTy { name: u.field_name(i), ty: Intern::new(ty) }
        })
        .collect();
    Ty::ConcreteStruct { uid, members }
}

fn gcc_layouts(shapes: &[Shape]) -> Result<Vec<(u32, u32, Vec<u32>)>, String> {
    let dir = std::path::Path::new("/verif/work/c17");
    std::fs::create_dir_all(dir).map_err(|e| e.to_string())?;
    let cfile = dir.join(format!("layouts_{}.c", std::process::id()));
    let exe = dir.join(format!("layouts_{}", std::process::id()));
    let mut src = String::from("#include <stdio.h>\n#include <stdint.h>\n#include <stddef.h>\n");
    for (k, shape) in shapes.iter().enumerate() {
        src.push_str(&format!("struct S{k} {{"));
        for (i, (s, n)) in shape.iter().enumerate() {
            if *n == 0 {
                src.push_str(&format!(" {} f{i};", C_SCALARS[*s].1));
            } else {
                src.push_str(&format!(" {} f{i}[{n}];", C_SCALARS[*s].1));
            }
        }
        src.push_str(" };\n");
    }
    src.push_str("int main(void) {\n");
    for (k, shape) in shapes.iter().enumerate() {
        src.push_str(&format!("  printf(\"%zu %zu\", sizeof(struct S{k}), _Alignof(struct S{k}));\n"));
        for i in 0..shape.len() {
            src.push_str(&format!("  printf(\" %zu\", offsetof(struct S{k}, f{i}));\n"));
        }
        src.push_str("  printf(\"\\n\");\n");
    }
    src.push_str("  return 0;\n}\n");
    std::fs::File::create(&cfile).and_then(|mut f| f.write_all(src.as_bytes())).map_err(|e| e.to_string())?;
    let out = std::process::Command::new("gcc").arg("-O0").arg("-o").arg(&exe).arg(&cfile).output().map_err(|e| format!("gcc: {e}"))?;
    if !out.status.success() {
        return Err(format!("gcc failed: {}", String::from_utf8_lossy(&out.stderr)));
    }
    let run = std::process::Command::new(&exe).output().map_err(|e| e.to_string())?;
    let _ = std::fs::remove_file(&cfile);
    let _ = std::fs::remove_file(&exe);
    let text = String::from_utf8_lossy(&run.stdout).to_string();
    let mut res = Vec::new();
    for line in text.lines() {
        let nums: Vec<u32> = line.split_whitespace().filter_map(|x| x.parse().ok()).collect();
        if nums.len() < 2 {
            return Err("unexpected gcc helper output".into());
        }
        res.push((nums[0], nums[1], nums[2..].to_vec()));
    }
    if res.len() != shapes.len() {
        return Err("gcc helper printed the wrong number of lines".into());
    }
    Ok(res)
}

impl Universe {
    pub fn field_name(&self, i: usize) -> hir::common::Name {
        self.names[i % self.names.len()]
    }
}

fn enc(t: &Ty) -> Vec<u8> {
    format!("{}\n// {:?}\n", skeleton(t, true), t).into_bytes()
}

pub fn run(ctx: &Ctx) -> i32 {
    let ptr_bits: u32 = ctx.args.extra.iter().position(|a| a == "--ptr").and_then(|i| ctx.args.extra.get(i + 1)).and_then(|s| s.parse().ok()).unwrap_or(64);
    let is_child = ctx.args.extra.iter().any(|a| a == "--child");
    let rule = "types: 27 primitives, every constructor applied once (depth 1) and twice (depth 2) over the pool (arrays len 0/2/3, slice, ^, ^mut, optional, distinct, error union, anon/named structs <= 2 members, enums, fn pointers), all structs of 1..4 scalar/array fields over 9 C scalars (exhaustive), random depth-3 types; pointer width 64 and 32 (separate processes). Oracle: the documented rules; scalar structs also against gcc offsetof/_Alignof/sizeof (64-bit). Non-trivial = aggregate with >= 2 members of different alignment, or a sum type (or an array/distinct of one); distinct by construction (types are interned, duplicates removed).";
    let u = Universe::new();
    let enums = u.enums();
    let c = Checker { ptr: ptr_bits / 8 };

    // pool
    let mut depth1: Vec<Ty> = u.base.iter().filter(|t| !matches!(t, Ty::IInt(0) | Ty::UInt(0) | Ty::Float(0))).cloned().collect();
    let base_n = depth1.len();
    depth1.extend(u.apply_constructors(&depth1.clone(), &u.core));
    for (e, vs) in &enums {
        depth1.push(e.clone());
        depth1.extend(vs.iter().cloned());
    }
    let reps: Vec<Ty> = depth1.iter().step_by(depth1.len() / 24).cloned().collect();
    let mut all: Vec<Ty> = depth1.clone();
    all.extend(u.apply_constructors(&depth1, &reps));
    // scalar struct shapes
    let mut shapes: Vec<Shape> = Vec::new();
    let ns = C_SCALARS.len();
    let max_fields = if ctx.thorough() { 4 } else { 3 };
    for len in 1..=max_fields {
        let count = ns.pow(len as u32);
        for mut i in 0..count {
            let mut s = Vec::new();
            for k in 0..len {
                let idx = i % ns;
                i /= ns;
                // every third field position becomes a small array to mix strides in
                let arr = if (idx + k) % 5 == 0 { (idx as u32 % 3) + 2 } else { 0 };
                s.push((idx, arr));
            }
            shapes.push(s);
        }
    }
    let shape_tys: Vec<Ty> = shapes.iter().enumerate().map(|(k, s)| shape_to_ty(&u, s, 2_000_000 + k as u32)).collect();
    all.extend(shape_tys.iter().cloned());
    {
        let mut seen = std::collections::HashSet::new();
        all.retain(|t| seen.insert(t.clone()));
    }
    ctx.class("pool.base", base_n as u64);
    ctx.class("pool.depth<=2+scalar-structs", all.len() as u64);

    let replayer_all = all.clone();
    let replayer = |bytes: &[u8]| -> Option<String> {
        let text = String::from_utf8_lossy(bytes).to_string();
        let sk = text.lines().next()?.to_string();
        let t = replayer_all.iter().find(|t| skeleton(t, true) == sk)?;
        let c = Checker { ptr: 8 };
        c.check(t).err().map(|e| e.0)
    };

    if let Err(k) = catch(|| calc_layouts(all.iter().map(|t| Intern::new(t.clone())), ptr_bits)) {
        ctx.fail(&format!("C17:panic:calc_layouts:{k}"), "calc_layouts panicked on the enumerated pool", b"pool");
        return ctx.finish(rule, false, &[], &replayer);
    }

    if let Some(p) = &ctx.args.replay {
        let bytes = std::fs::read(p).unwrap_or_else(|e| {
            eprintln!("cannot read replay: {e}");
            std::process::exit(2)
        });
        let text = String::from_utf8_lossy(&bytes).to_string();
        let sk = text.lines().next().unwrap_or("").to_string();
        let Some(t) = all.iter().find(|t| skeleton(t, true) == sk) else {
            eprintln!("replay type not in the enumerated pool");
            return 2;
        };
        ctx.add_evals(1);
        if let Err((k, d)) = c.check(t) {
            ctx.fail(&k, &d, &bytes);
        }
        return ctx.finish(rule, false, &[], &replayer);
    }

    let mut nt = 0u64;
    let mut per_head: BTreeMap<String, u64> = BTreeMap::new();
    for t in &all {
        ctx.add_evals(1);
        *per_head.entry(crate::c12::head(t)).or_insert(0) += 1;
        match c.check(t) {
            Ok(()) => {
                if is_nontrivial(&c, t) {
                    nt += 1;
                    if nt % 4001 == 7 {
                        ctx.sample(json!({"type": skeleton(t, true), "layout": format!("{:?}", c.layout(t)), "ptr_bits": ptr_bits}));
                    }
                }
            }
            Err((k, d)) => {
                ctx.fail(&k, &d, &enc(t));
            }
        }
    }
    ctx.nontrivial_distinct(nt);
    for (h, n) in per_head {
        ctx.class(&format!("head.{h}"), n);
    }

    // gcc comparison (64-bit only)
    if ptr_bits == 64 {
        match gcc_layouts(&shapes) {
            Err(e) => {
                eprintln!("gcc comparison unavailable: {e}");
                return 2;
            }
            Ok(c_layouts) => {
                for ((shape, ty), (c_size, c_align, c_offs)) in shapes.iter().zip(shape_tys.iter()).zip(c_layouts.iter()) {
                    ctx.add_evals(1);
                    let l = c.layout(ty);
                    let offs = l.offsets.clone().unwrap_or_default();
                    if &offs != c_offs || l.align != *c_align || l.stride != *c_size {
                        let desc = format!(
                            "struct {{{}}}: capy offsets {:?} align {} stride {} ; gcc offsetof {:?} _Alignof {} sizeof {}",
                            shape.iter().map(|(s, n)| if *n == 0 { C_SCALARS[*s].0.to_string() } else { format!("[{n}]{}", C_SCALARS[*s].0) }).collect::<Vec<_>>().join(", "),
                            offs, l.align, l.stride, c_offs, c_align, c_size
                        );
                        ctx.fail("C17:gcc-mismatch", &desc, &enc(ty));
                    }
                }
                ctx.class("gcc.structs-compared", shapes.len() as u64);
            }
        }
    }

    // random depth 3
    let cases = if ctx.thorough() { 3_000_000 } else { 20_000 };
    let n = all.len();
    let strat = (0usize..12, 0..n, 0..n, 0..n, 0u64..4);
    let mut extra: Vec<Ty> = Vec::new();
    let picks = draw(ctx.args.seed, "c17:depth3", &strat, cases as usize);
    for (k, (con, a, b, d, size)) in picks.iter().enumerate() {
        let i = |x: &usize| Intern::new(all[*x].clone());
        let t = match con {
            0 => Ty::ConcreteArray { size: *size, sub_ty: i(a) },
            1 => Ty::Optional { sub_ty: i(a) },
            2 => Ty::ErrorUnion { error_ty: i(a), payload_ty: i(b) },
            3 => Ty::Distinct { uid: 5_000_000 + k as u32, sub_ty: i(a) },
            4 | 5 | 6 => Ty::ConcreteStruct {
                uid: 6_000_000 + k as u32,
                members: vec![MemberTy { name: u.field_name(0), ty: i(a) }, MemberTy { name: u.field_name(1), ty: i(b) }, MemberTy { name: u.field_name(2), ty: i(d) }],
            },
            7 => Ty::AnonStruct { members: vec![MemberTy { name: u.field_name(0), ty: i(a) }, MemberTy { name: u.field_name(1), ty: i(b) }] },
            8 => Ty::Pointer { mutable: true, sub_ty: i(a) },
            9 => Ty::Optional { sub_ty: Intern::new(Ty::Pointer { mutable: false, sub_ty: i(a) }) },
            10 => Ty::Slice { sub_ty: i(a) },
            _ => Ty::AnonArray { size: *size, sub_ty: i(a) },
        };
        extra.push(t);
    }
    {
        let mut seen = std::collections::HashSet::new();
        extra.retain(|t| seen.insert(t.clone()));
    }
    if let Err(k) = catch(|| calc_layouts(extra.iter().map(|t| Intern::new(t.clone())), ptr_bits)) {
        ctx.fail(&format!("C17:panic:calc_layouts:{k}"), "calc_layouts panicked on random depth-3 types", b"depth3");
    } else {
        let mut nt3 = 0;
        for t in &extra {
            ctx.add_evals(1);
            match c.check(t) {
                Ok(()) => {
                    if is_nontrivial(&c, t) {
                        nt3 += 1;
                    }
                }
                Err((k, d)) => {
                    ctx.fail(&k, &d, &enc(t));
                }
            }
        }
        ctx.nontrivial_distinct(nt3);
        ctx.class("random-depth3", extra.len() as u64);
    }

    // the 32-bit pass runs in a child process (calc_layouts cannot switch widths in one process)
    if !is_child && ptr_bits == 64 {
        let exe = std::env::current_exe().unwrap();
        let tier = if ctx.thorough() { "thorough" } else { "quick" };
        let out = std::process::Command::new(exe)
            .args(["C17", "--tier", tier, "--seed", &ctx.args.seed.to_string(), "--ptr", "32", "--child"])
            .output();
        match out {
            Err(e) => {
                eprintln!("cannot spawn 32-bit child: {e}");
                return 2;
            }
            Ok(o) => {
                let text = String::from_utf8_lossy(&o.stdout).to_string();
                let mut cur_key = String::new();
                let mut cur_desc = String::new();
                for line in text.lines() {
                    if let Some(k) = line.strip_prefix("violation key: ") {
                        cur_key = format!("{k}:ptr32");
                        cur_desc.clear();
                    } else if line.starts_with("VIOLATION ") {
                        ctx.fail(&cur_key, &format!("(pointer width 32) {cur_desc}"), cur_key.as_bytes());
                    } else if line.starts_with("  ") {
                        cur_desc.push_str(line.trim());
                        cur_desc.push(' ');
                    } else if let Some(rest) = line.strip_prefix("CHILD32 ") {
                        let nums: Vec<u64> = rest.split_whitespace().filter_map(|x| x.parse().ok()).collect();
                        if nums.len() == 2 {
                            ctx.add_evals(nums[0]);
                            ctx.nontrivial_distinct(nums[1]);
                            ctx.class("ptr32.types", nums[0]);
                        }
                    }
                }
                if !o.status.success() && o.status.code() != Some(1) {
                    eprintln!("32-bit child failed: {:?}\n{}", o.status, String::from_utf8_lossy(&o.stderr));
                    return 2;
                }
            }
        }
    }
    if is_child {
        // report counts to the parent; the parent writes the evidence
        let n_viol = ctx.violation_count();
        crate::outln!("CHILD32 {} {}", all.len() + extra.len(), nt);
        let code = ctx.finish_child();
        return if n_viol > 0 { 1 } else { code };
    }
    ctx.finish(
        rule,
        true,
        &[
            "size rules of sum types are checked as: tag offset == largest payload size, offset+1 <= size <= offset+1 rounded up to the alignment",
            "128-bit integers are excluded from the gcc comparison (documented alignment <= 8 differs from the C ABI's 16)",
            "the 32-bit pass checks the documented rules only (no 32-bit C compiler in the image)",
        ],
        &replayer,
    )
}
