//! C27 — distinct compiled entities get distinct symbol names.
//!
//! Through hook H2 (codegen::verif::mangle_*). Entity descriptors over file paths of <= 3
//! components from a name pool mixing letters, digits, dots and dashes (in the working directory
//! or under the module directory), global names, lambda / comptime indices and generic ids.
//! Oracle: injectivity over all pairs of a descriptor pool, and no name equal to `main` or to a
//! compiler-internal `_CI..E` symbol.

use std::collections::BTreeMap;
use std::path::{Path, PathBuf};

use crate::common::*;
use codegen::verif as hook;
use hir::common::{ComptimeArgs, ComptimeLoc, ConcreteLoc, FileName, Name, NaiveGlobalLoc, NaiveLambdaLoc};
use la_arena::{Idx, IdxRange, RawIdx};
use proptest::prelude::*;
use serde_json::json;

#[derive(Debug, Clone, PartialEq, Eq, Hash, PartialOrd, Ord)]
pub enum Root {
    Cwd,
    Mod,
}

#[derive(Debug, Clone, PartialEq, Eq, Hash, PartialOrd, Ord)]
pub enum Kind {
    Named { name: String, generic: Option<u32> },
    Lambda { idx: u32, generic: Option<u32> },
}

#[derive(Debug, Clone, PartialEq, Eq, Hash, PartialOrd, Ord)]
pub struct Ent {
    pub root: Root,
    pub path: Vec<String>, // last component carries ".capy"
    pub kind: Kind,
    pub comptime: Option<u32>,
    pub data: Option<&'static str>,
}

pub const COMPONENT_POOL: &[&str] = &["a", "b", "1", "f1", "m1", "a.b", "a-b", "src", "x", "1a", "a1", "-", "a--b", "a.-b", "F", "N1", "10", "0"];
pub const NAME_POOL: &[&str] = &["foo", "f", "main", "E", "n1", "l1", "g2", "z0", "_", "F1a", "a1foo", "value", "init_flag"];

pub struct World {
    pub interner: interner::Interner,
    pub cwd: PathBuf,
    pub mod_dir: PathBuf,
}

impl World {
    pub fn new() -> World {
        World { interner: interner::Interner::default(), cwd: std::env::current_dir().unwrap(), mod_dir: PathBuf::from("/verif/work/c27-modules") }
    }

    pub fn mangle(&mut self, e: &Ent) -> String {
        let mut p = match e.root {
            Root::Cwd => self.cwd.clone(),
            Root::Mod => self.mod_dir.clone(),
        };
        for c in &e.path {
            p.push(c);
        }
        let file = FileName(self.interner.intern(&p.to_string_lossy()));
        let args = |g: Option<u32>| g.map(|n| ComptimeArgs::new(IdxRange::new(Idx::from_raw(RawIdx::from(n))..Idx::from_raw(RawIdx::from(n + 1)))));
        let loc: ConcreteLoc = match &e.kind {
            Kind::Named { name, generic } => {
                let n = Name(self.interner.intern(name));
                NaiveGlobalLoc { file, name: n }.make_concrete(args(*generic)).wrap()
            }
            Kind::Lambda { idx, generic } => NaiveLambdaLoc { file, expr: Idx::from_raw(RawIdx::from(*idx)), lambda: Idx::from_raw(RawIdx::from(*idx)) }
                .make_concrete(args(*generic))
                .wrap(),
        };
        let mod_dir: &Path = &self.mod_dir;
        match (e.comptime, e.data) {
            (None, _) => hook::mangle_concrete(loc, mod_dir, &self.interner),
            (Some(c), None) => hook::mangle_comptime(
                ComptimeLoc { loc, expr: Idx::from_raw(RawIdx::from(c)), comptime: Idx::from_raw(RawIdx::from(c)) },
                mod_dir,
                &self.interner,
            ),
            (Some(c), Some(d)) => hook::mangle_comptime_data(
                ComptimeLoc { loc, expr: Idx::from_raw(RawIdx::from(c)), comptime: Idx::from_raw(RawIdx::from(c)) },
                d,
                mod_dir,
                &self.interner,
            ),
        }
    }
}

/// which component of the descriptor differs (for grouping keys / non-triviality)
fn diff_class(a: &Ent, b: &Ent) -> Vec<&'static str> {
    let mut d = Vec::new();
    if a.root != b.root {
        d.push("root");
    }
    if a.path != b.path {
        d.push("path");
    }
    match (&a.kind, &b.kind) {
        (Kind::Named { name: n1, generic: g1 }, Kind::Named { name: n2, generic: g2 }) => {
            if n1 != n2 {
                d.push("name");
            }
            if g1 != g2 {
                d.push("generic");
            }
        }
        (Kind::Lambda { idx: i1, generic: g1 }, Kind::Lambda { idx: i2, generic: g2 }) => {
            if i1 != i2 {
                d.push("lambda-idx");
            }
            if g1 != g2 {
                d.push("generic");
            }
        }
        _ => d.push("kind"),
    }
    if a.comptime != b.comptime {
        d.push("comptime");
    }
    if a.data != b.data {
        d.push("data");
    }
    d
}

/// Finer classification of path collisions: the smallest set of known lossy steps of
/// FileName::get_components (`src` elision for modules, `.` -> `-`) that explains the collision.
fn path_mechanism(a: &Ent, b: &Ent) -> String {
    let norm = |e: &Ent, src: bool, dots: bool| -> (Root, Vec<String>) {
        let mut p: Vec<String> = e.path.iter().map(|c| c.strip_suffix(".capy").unwrap_or(c).to_string()).collect();
        if src && e.root == Root::Mod && p.len() > 2 && p[1] == "src" {
            p.remove(1);
        }
        if dots {
            p = p.iter().map(|c| c.replace('.', "-")).collect();
        }
        (e.root.clone(), p)
    };
    for (src, dots, name) in [(true, false, "src-elided"), (false, true, "dot-vs-dash"), (true, true, "dot-vs-dash+src-elided")] {
        if norm(a, src, dots) == norm(b, src, dots) {
            return name.into();
        }
    }
    if a.root != b.root {
        return "root-vs-module".into();
    }
    "other".into()
}

fn enc(a: &Ent, b: &Ent) -> Vec<u8> {
    serde_json::to_vec_pretty(&json!({"a": ent_json(a), "b": ent_json(b)})).unwrap()
}

fn ent_json(e: &Ent) -> serde_json::Value {
    let (k, name, idx, generic) = match &e.kind {
        Kind::Named { name, generic } => ("named", Some(name.clone()), None, *generic),
        Kind::Lambda { idx, generic } => ("lambda", None, Some(*idx), *generic),
    };
    json!({"root": if e.root == Root::Cwd { "cwd" } else { "mod" }, "path": e.path, "kind": k, "name": name, "idx": idx, "generic": generic, "comptime": e.comptime, "data": e.data})
}

fn ent_from_json(v: &serde_json::Value) -> Option<Ent> {
    let generic = v["generic"].as_u64().map(|x| x as u32);
    Some(Ent {
        root: if v["root"].as_str()? == "cwd" { Root::Cwd } else { Root::Mod },
        path: v["path"].as_array()?.iter().filter_map(|x| x.as_str().map(String::from)).collect(),
        kind: if v["kind"].as_str()? == "named" { Kind::Named { name: v["name"].as_str()?.to_string(), generic } } else { Kind::Lambda { idx: v["idx"].as_u64()? as u32, generic } },
        comptime: v["comptime"].as_u64().map(|x| x as u32),
        data: match v["data"].as_str() {
            Some("init_flag") => Some("init_flag"),
            Some("value") => Some("value"),
            _ => None,
        },
    })
}

fn check_pair(w: &mut World, a: &Ent, b: &Ent) -> Result<(), (String, String)> {
    if a == b {
        return Ok(());
    }
    let (ma, mb) = match catch(|| (w.mangle(a), w.mangle(b))) {
        Ok(x) => x,
        Err(k) => return Err((format!("C27:panic:{k}"), format!("mangling panicked for {:?} / {:?}", a, b))),
    };
    if ma == mb {
        let d = diff_class(a, b);
        let key = if d == ["path"] || d == ["root", "path"] || d == ["root"] {
            format!("C27:collision:path:{}", path_mechanism(a, b))
        } else {
            format!("C27:collision:{}", d.join("+"))
        };
        return Err((key, format!("two different entities share the symbol `{ma}`:\n  {:?}\n  {:?}", a, b)));
    }
    Ok(())
}

fn check_reserved(w: &mut World, a: &Ent, internal: &[String]) -> Result<(), (String, String)> {
    let m = match catch(|| w.mangle(a)) {
        Ok(m) => m,
        Err(k) => return Err((format!("C27:panic:{k}"), format!("mangling panicked for {:?}", a))),
    };
    if m == "main" {
        return Err(("C27:reserved:main".into(), format!("entity {:?} is mangled to `main`", a)));
    }
    if internal.iter().any(|i| *i == m) || (m.starts_with("_CI") && m.ends_with('E')) {
        return Err(("C27:reserved:internal".into(), format!("entity {:?} is mangled to the compiler-internal symbol `{m}`", a)));
    }
    Ok(())
}

fn pool() -> Vec<Ent> {
    let mut files: Vec<(Root, Vec<String>)> = Vec::new();
    for c in COMPONENT_POOL {
        files.push((Root::Cwd, vec![format!("{c}.capy")]));
    }
    // two-component paths over a smaller pool, in the cwd and as modules (<mod>/src/<file>)
    let small = ["a", "1", "f1", "a.b", "a-b", "src", "x"];
    for d in small {
        for f in small {
            files.push((Root::Cwd, vec![d.to_string(), format!("{f}.capy")]));
        }
    }
    for d in ["a", "x", "src"] {
        for f in ["a", "x", "1", "f1", "src"] {
            files.push((Root::Cwd, vec![d.to_string(), "src".to_string(), format!("{f}.capy")]));
            files.push((Root::Mod, vec![d.to_string(), "src".to_string(), format!("{f}.capy")]));
        }
    }
    let mut ents = Vec::new();
    for (k, (root, path)) in files.iter().enumerate() {
        // every file: the same global `foo`
        ents.push(Ent { root: root.clone(), path: path.clone(), kind: Kind::Named { name: "foo".into(), generic: None }, comptime: None, data: None });
        if k % 7 == 0 {
            ents.push(Ent { root: root.clone(), path: path.clone(), kind: Kind::Lambda { idx: 1, generic: None }, comptime: None, data: None });
        }
    }
    // one file: every kind of entity
    let f = (Root::Cwd, vec!["a.capy".to_string()]);
    for name in NAME_POOL {
        for generic in [None, Some(0), Some(1), Some(12)] {
            ents.push(Ent { root: f.0.clone(), path: f.1.clone(), kind: Kind::Named { name: name.to_string(), generic }, comptime: None, data: None });
        }
    }
    for idx in [0u32, 1, 2, 10, 12, 112, 999] {
        for generic in [None, Some(0), Some(1), Some(12)] {
            ents.push(Ent { root: f.0.clone(), path: f.1.clone(), kind: Kind::Lambda { idx, generic }, comptime: None, data: None });
        }
    }
    for base in [Kind::Named { name: "foo".into(), generic: None }, Kind::Named { name: "foo".into(), generic: Some(1) }, Kind::Lambda { idx: 1, generic: None }, Kind::Lambda { idx: 11, generic: Some(1) }] {
        for c in [0u32, 1, 11, 111] {
            for data in [None, Some("init_flag"), Some("value")] {
                ents.push(Ent { root: f.0.clone(), path: f.1.clone(), kind: base.clone(), comptime: Some(c), data });
            }
        }
    }
    ents.sort();
    ents.dedup();
    ents
}

fn ent_strategy() -> impl Strategy<Value = Ent> {
    let comp = prop::sample::select(COMPONENT_POOL.to_vec());
    let path = prop_oneof![
        (any::<bool>(), prop::collection::vec(comp.clone(), 1..=3)).prop_map(|(m, v)| (if m { Root::Mod } else { Root::Cwd }, v)),
        (any::<bool>(), comp.clone(), comp.clone()).prop_map(|(m, a, b)| (if m { Root::Mod } else { Root::Cwd }, vec![a, "src", b])),
    ];
    let kind = prop_oneof![
        (prop::sample::select(NAME_POOL.to_vec()), prop::option::of(0u32..1000)).prop_map(|(n, g)| Kind::Named { name: n.to_string(), generic: g }),
        (0u32..1000, prop::option::of(0u32..1000)).prop_map(|(i, g)| Kind::Lambda { idx: i, generic: g }),
    ];
    (path, kind, prop::option::of(0u32..1000), prop::option::of(prop::sample::select(vec!["init_flag", "value"]))).prop_map(|((root, comps), kind, comptime, data)| {
        let n = comps.len();
        let path: Vec<String> = comps.iter().enumerate().map(|(i, c)| if i + 1 == n { format!("{c}.capy") } else { c.to_string() }).collect();
        // a module path needs at least <mod>/<file>
        let path = if root == Root::Mod && path.len() < 2 { vec!["m".to_string(), path[0].clone()] } else { path };
        Ent { root, path, kind, comptime, data: if comptime.is_some() { data } else { None } }
    })
}

pub fn run(ctx: &Ctx) -> i32 {
    let rule = "entity descriptors = (working dir | module dir, path of <= 3 components from a pool mixing letters/digits/dots/dashes/`src`, named global or lambda index < 1000, optional generic id < 1000, optional comptime index < 1000, optional comptime data name); A: all unordered pairs of a ~400-descriptor pool (exhaustive) + reserved-name check; B: proptest random pairs, half of them differing in exactly one component. Non-trivial = the two descriptors differ in exactly one component class (path, name, index, generic, comptime, data); distinct by (descriptor pair).";
    let mut w = World::new();
    let internal: Vec<String> = ["commandline_args", "struct_member_info", "enum_variant_tys", "ptr_bitcast", "array_layout_array", "pointer_layout", "struct_info_array"]
        .iter()
        .map(|n| hook::mangle_internal(n))
        .collect();
    let replayer = |bytes: &[u8]| -> Option<String> {
        let v: serde_json::Value = serde_json::from_slice(bytes).ok()?;
        let a = ent_from_json(&v["a"])?;
        let b = ent_from_json(&v["b"])?;
        let mut w = World::new();
        check_pair(&mut w, &a, &b).err().map(|e| e.0)
    };
    if let Some(p) = &ctx.args.replay {
        let bytes = std::fs::read(p).unwrap_or_else(|e| {
            eprintln!("cannot read replay: {e}");
            std::process::exit(2)
        });
        let v: serde_json::Value = serde_json::from_slice(&bytes).unwrap_or(json!(null));
        let (Some(a), Some(b)) = (ent_from_json(&v["a"]), ent_from_json(&v["b"])) else {
            eprintln!("replay file is not a C27 descriptor pair");
            return 2;
        };
        ctx.add_evals(1);
        if let Err((k, d)) = check_pair(&mut w, &a, &b) {
            ctx.fail(&k, &d, &bytes);
        }
        return ctx.finish(rule, false, &[], &replayer);
    }

    let ents = pool();
    ctx.class("A.pool", ents.len() as u64);
    let mut names: BTreeMap<String, Vec<usize>> = BTreeMap::new();
    for (i, e) in ents.iter().enumerate() {
        ctx.add_evals(1);
        if let Err((k, d)) = check_reserved(&mut w, e, &internal) {
            ctx.fail(&k, &d, &enc(e, e));
        }
        match catch(|| w.mangle(e)) {
            Ok(m) => names.entry(m).or_default().push(i),
            Err(k) => {
                ctx.fail(&format!("C27:panic:{k}"), &format!("mangling panicked for {:?}", e), &enc(e, e));
            }
        }
    }
    let n = ents.len() as u64;
    ctx.add_evals(n * (n - 1) / 2);
    // non-trivial pairs: differ in exactly one class
    let mut nt = 0u64;
    for i in 0..ents.len() {
        for j in (i + 1)..ents.len() {
            if diff_class(&ents[i], &ents[j]).len() == 1 {
                nt += 1;
            }
        }
    }
    ctx.nontrivial_distinct(nt);
    for (_m, idxs) in names.iter().filter(|(_, v)| v.len() > 1) {
        for x in 0..idxs.len() {
            for y in (x + 1)..idxs.len() {
                let (a, b) = (&ents[idxs[x]], &ents[idxs[y]]);
                if let Err((k, d)) = check_pair(&mut w, a, b) {
                    ctx.fail(&k, &d, &enc(a, b));
                }
            }
        }
    }
    if let Some(e) = ents.iter().find(|e| e.comptime.is_some() && e.data.is_some()) {
        ctx.sample(json!({"entity": ent_json(e), "symbol": w.mangle(e)}));
    }
    for e in ents.iter().step_by(97).take(5) {
        ctx.sample(json!({"entity": ent_json(e), "symbol": w.mangle(e)}));
    }

    // B: random pairs
    let cases = if ctx.thorough() { 20_000_000 } else { 100_000 };
    let strat = (ent_strategy(), ent_strategy(), 0u8..8);
    let wcell = std::cell::RefCell::new(World::new());
    search(ctx, "c27", cases, &strat, |(a, b, _)| enc(a, b), |(a, b, mode)| {
        // modes 1..: make b a one-component variation of a
        let mut b2 = b.clone();
        match mode {
            1 => { b2 = a.clone(); b2.path = b.path.clone(); b2.root = b.root.clone(); }
            2 => { b2 = a.clone(); b2.kind = b.kind.clone(); }
            3 => { b2 = a.clone(); b2.comptime = b.comptime; if b2.comptime.is_none() { b2.data = None; } }
            4 => { b2 = a.clone(); if b2.comptime.is_some() { b2.data = b.data; } }
            _ => {}
        }
        if b2.root == Root::Mod && b2.path.len() < 2 {
            b2.path.insert(0, "m".into());
        }
        ctx.add_evals(1);
        let mut w = wcell.borrow_mut();
        check_reserved(&mut w, a, &internal)?;
        let r = check_pair(&mut w, a, &b2);
        if r.is_ok() && *a != b2 && diff_class(a, &b2).len() == 1 {
            ctx.nontrivial(fnv(&enc(a, &b2)));
        }
        r
    });

    ctx.finish(
        rule,
        true,
        &[
            "a lambda bound to a global is the same entity as that global (it is mangled under the global's name by design)",
            "paths are placed under the current working directory or the module directory, the only places imports may resolve to",
        ],
        &replayer,
    )
}
