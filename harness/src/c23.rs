//! C23 — parsing is total, terminating and lossless.
//!
//! For each input, both `parse_source_file` and `parse_repl_line`:
//!   no panic; the parser's step count (hook parser::verif, counts token peeks / started nodes /
//!   bumped tokens) stays below LINEAR_A + LINEAR_B * tokens ("time roughly linear", with the
//!   fuel sentinel turning non-termination into a deterministic failure); syntax tree text ==
//!   input; every syntax error location lies within [0, len].

use crate::common::*;
use crate::outln;
use crate::gens;
use proptest::prelude::*;
use rayon::prelude::*;
use serde_json::json;

/// Linear work bound. Calibrated on the repository corpus and 10^6 soups: the observed maximum is
/// below 60 steps per token (see evidence `max_steps_per_token`); the bound leaves > 10x room.
pub const LINEAR_A: u64 = 4096;
pub const LINEAR_B: u64 = 1024;

#[derive(Default, Clone)]
pub struct ParseOutcome {
    pub tokens: usize,
    pub errors: usize,
    pub completed_nodes: usize,
    pub steps: u64,
}

fn check_mode(text: &str, repl: bool) -> Result<ParseOutcome, (String, String)> {
    let mode = if repl { "repl_line" } else { "source_file" };
    let r = catch(|| {
        let tokens = lexer::lex(text);
        let n = tokens.len();
        let parse = if repl { parser::parse_repl_line(&tokens, text) } else { parser::parse_source_file(&tokens, text) };
        let steps = parser::verif::last_steps();
        let tree = parse.syntax_tree();
        let tree_text = tree.root().text(tree).to_string();
        let nodes = tree.root().descendant_nodes(tree).count();
        let errs: Vec<(u32, u32, String)> = parse
            .errors()
            .iter()
            .map(|e| match e.kind {
                parser::SyntaxErrorKind::Missing { offset } => (u32::from(offset), u32::from(offset), format!("{:?}", e)),
                parser::SyntaxErrorKind::UnexpectedToken { range, .. } | parser::SyntaxErrorKind::UnexpectedNode { range, .. } => {
                    (u32::from(range.start()), u32::from(range.end()), format!("{:?}", e))
                }
            })
            .collect();
        (n, steps, tree_text, nodes, errs)
    });
    let (n, steps, tree_text, nodes, errs) = match r {
        Ok(v) => v,
        Err(k) => {
            let k = if k.contains("parser fuel exhausted") { "hang:parser:fuel-exhausted".to_string() } else { k };
            return Err((k, format!("parse_{mode} failed on {:?}", truncate(text))));
        }
    };
    if steps > LINEAR_A + LINEAR_B * n as u64 {
        return Err((
            "C23:superlinear".into(),
            format!("parse_{mode} took {steps} steps for {n} tokens (bound {} + {}*tokens) on {:?}", LINEAR_A, LINEAR_B, truncate(text)),
        ));
    }
    if tree_text != text {
        return Err((
            "C23:lossy-tree".into(),
            format!("parse_{mode}: syntax tree text {:?} != input {:?}", truncate(&tree_text), truncate(text)),
        ));
    }
    for (s, e, dbg) in &errs {
        if s > e || *e as usize > text.len() {
            return Err((
                "C23:error-out-of-range".into(),
                format!("parse_{mode}: syntax error `{dbg}` at {s}..{e} lies outside the input (len {}) {:?}", text.len(), truncate(text)),
            ));
        }
    }
    Ok(ParseOutcome { tokens: n, errors: errs.len(), completed_nodes: nodes.saturating_sub(1), steps })
}

fn truncate(s: &str) -> String {
    if s.len() <= 300 {
        s.to_string()
    } else {
        let mut i = 300;
        while !s.is_char_boundary(i) {
            i -= 1;
        }
        format!("{}…(+{} bytes)", &s[..i], s.len() - i)
    }
}

pub fn check_input(text: &str) -> Result<ParseOutcome, (String, String)> {
    let a = check_mode(text, false)?;
    let b = check_mode(text, true)?;
    Ok(ParseOutcome {
        tokens: a.tokens,
        errors: a.errors.max(b.errors),
        completed_nodes: a.completed_nodes.max(b.completed_nodes),
        steps: a.steps.max(b.steps),
    })
}

struct Stats {
    max_ratio: std::sync::Mutex<(f64, String)>,
}

fn record(ctx: &Ctx, stats: &Stats, text: &str, res: Result<ParseOutcome, (String, String)>) {
    match res {
        Ok(o) => {
            if o.errors >= 1 && o.completed_nodes >= 1 {
                ctx.nontrivial(fnv(text.as_bytes()));
            }
            if o.tokens >= 4 {
                let ratio = o.steps as f64 / o.tokens as f64;
                let mut m = stats.max_ratio.lock().unwrap();
                if ratio > m.0 {
                    *m = (ratio, truncate(text));
                }
            }
        }
        Err((k, d)) => {
            if ctx.is_known(&k) {
                ctx.fail(&k, &d, &[]);
                return;
            }
            let min = gens::shrink_text(text, &|t| matches!(check_input(t), Err((k2, _)) if k2 == k));
            let d2 = check_input(&min).err().map(|e| e.1).unwrap_or(d);
            ctx.fail(&k, &d2, min.as_bytes());
        }
    }
}

fn enumerate(ctx: &Ctx, stats: &Stats, alphabet: &[&str], max_len: u32, label: &str) {
    let n = alphabet.len() as u64;
    for len in 0..=max_len {
        let count = n.pow(len);
        // process in chunks to bound memory
        let chunk = 1u64 << 20;
        let mut start = 0;
        while start < count {
            let end = (start + chunk).min(count);
            let results: Vec<(String, Result<ParseOutcome, (String, String)>)> = (start..end)
                .into_par_iter()
                .map(|mut i| {
                    let mut idxs = Vec::with_capacity(len as usize);
                    for _ in 0..len {
                        idxs.push((i % n) as usize);
                        i /= n;
                    }
                    let s = gens::join_tokens(&idxs, alphabet, true);
                    let r = check_input(&s);
                    (s, r)
                })
                .filter(|(_, r)| match r {
                    Err(_) => true,
                    Ok(o) => o.errors >= 1 && o.completed_nodes >= 1,
                })
                .collect();
            // dedupe failures by key to keep shrinking cheap
            let mut seen = std::collections::BTreeSet::new();
            for (s, r) in results {
                match &r {
                    Ok(_) => {
                        // distinct by construction
                        ctx.nontrivial_distinct(1);
                    }
                    Err((k, _)) => {
                        if seen.insert(k.clone()) || ctx.is_known(k) {
                            record(ctx, stats, &s, r);
                        }
                    }
                }
            }
            ctx.add_evals(end - start);
            start = end;
        }
        ctx.class(&format!("{label}.len{len}"), count);
    }
}

fn nesting_inputs() -> Vec<String> {
    let mut v = Vec::new();
    for depth in [50usize, 100, 150, 200] {
        for (o, c) in [("(", ")"), ("[", "]"), ("{", "}"), ("a.(", ")"), ("f(", ")"), (".{a=", "}"), ("-", ""), ("^", ""), ("?", ""), ("if a {", "}"), ("a[", "]"), ("x :: () {", "}"), ("struct{a:", "}"), ("(a+", ")")] {
            v.push(format!("x :: {}1{};", o.repeat(depth), c.repeat(depth)));
            v.push(format!("x :: {}", o.repeat(depth)));
            v.push(c.repeat(depth).to_string());
        }
    }
    v
}

/// Child mode: parses the deep-nesting inputs on a thread with the default main-thread stack
/// size (8 MiB); a stack overflow kills this child only.
pub fn nest_child() -> i32 {
    let handle = std::thread::Builder::new().stack_size(8 << 20).spawn(|| {
        let mut bad = Vec::new();
        for s in nesting_inputs() {
            if let Err((k, d)) = check_input(&s) {
                bad.push((k, d, s));
            }
        }
        bad
    });
    match handle.unwrap().join() {
        Ok(bad) => {
            for (k, d, s) in &bad {
                outln!("NESTFAIL\t{}\t{}\t{}", k, d.replace(['\n', '\t'], " "), s.replace(['\n', '\t'], " "));
            }
            0
        }
        Err(_) => 3,
    }
}

pub fn run(ctx: &Ctx) -> i32 {
    let rule = "A: every token sequence of length <= N over the reduced 14-token set {a 1 ( ) { } [ ] . , : = ; ^} (N=5 quick, 6 thorough) and of length <= M over the 8 bracket/./, tokens (M=7 quick, 8 thorough), exhaustive; B: proptest token soups over the full token set; C: token/byte mutations of the repository corpus <= 64 KiB; D: bracket nesting to depth 200 in a child process. Both parse_source_file and parse_repl_line. Non-trivial = >= 1 syntax error and >= 1 completed non-root node (error recovery exercised); distinct by content hash (enumerated inputs are distinct by construction).";
    let replayer = |bytes: &[u8]| -> Option<String> {
        let t = String::from_utf8_lossy(bytes).to_string();
        check_input(&t).err().map(|e| e.0)
    };
    if let Some(p) = &ctx.args.replay {
        let bytes = std::fs::read(p).unwrap_or_else(|e| {
            eprintln!("cannot read replay: {e}");
            std::process::exit(2)
        });
        let t = String::from_utf8_lossy(&bytes).to_string();
        ctx.add_evals(1);
        if let Err((k, d)) = check_input(&t) {
            ctx.fail(&k, &d, &bytes);
        }
        return ctx.finish(rule, false, &[], &replayer);
    }
    let stats = Stats { max_ratio: std::sync::Mutex::new((0.0, String::new())) };

    // D: nesting in a child process
    let exe = std::env::current_exe().unwrap();
    let out = std::process::Command::new(exe).args(["C23", "--nest-child"]).output();
    match out {
        Ok(o) => {
            let n = nesting_inputs().len() as u64;
            ctx.add_evals(n);
            ctx.class("D.nesting-inputs", n);
            use std::os::unix::process::ExitStatusExt;
            if let Some(sig) = o.status.signal() {
                let k = format!("crash:parser:signal-{sig}-on-nesting<=200");
                ctx.fail(&k, "the parser died with a signal (stack overflow?) on bracket nesting of depth <= 200", b"see c23.rs nesting_inputs()");
            } else if o.status.code() == Some(3) {
                ctx.fail("crash:parser:nesting-thread-panicked", "nesting child panicked", b"see c23.rs nesting_inputs()");
            } else {
                for line in String::from_utf8_lossy(&o.stdout).lines() {
                    if let Some(rest) = line.strip_prefix("NESTFAIL\t") {
                        let parts: Vec<&str> = rest.splitn(3, '\t').collect();
                        if parts.len() == 3 {
                            ctx.fail(parts[0], parts[1], parts[2].as_bytes());
                        }
                    }
                }
            }
        }
        Err(e) => {
            eprintln!("cannot spawn nesting child: {e}");
            return 2;
        }
    }

    // A: exhaustive
    enumerate(ctx, &stats, gens::REDUCED14, if ctx.thorough() { 6 } else { 5 }, "A14");
    enumerate(ctx, &stats, gens::REDUCED8, if ctx.thorough() { 8 } else { 7 }, "A8");

    // B: random soups
    let cases = if ctx.thorough() { 1_500_000 } else { 60_000 };
    let strat = prop_oneof![gens::soup_strategy(60), gens::structured_soup_strategy(), gens::unicode_strategy(60)];
    search(ctx, "c23:soup", cases, &strat, |s| s.as_bytes().to_vec(), |s| {
        ctx.add_evals(1);
        match check_input(s) {
            Ok(o) => {
                if o.errors >= 1 && o.completed_nodes >= 1 {
                    ctx.nontrivial(fnv(s.as_bytes()));
                    if ctx.sample_count() < 6 {
                        ctx.sample(json!({"input": truncate(s), "tokens": o.tokens, "syntax_errors": o.errors, "nodes": o.completed_nodes, "steps": o.steps}));
                    }
                }
                if o.tokens >= 4 {
                    let ratio = o.steps as f64 / o.tokens as f64;
                    let mut m = stats.max_ratio.lock().unwrap();
                    if ratio > m.0 {
                        *m = (ratio, truncate(s));
                    }
                }
                Ok(())
            }
            Err(e) => Err(e),
        }
    });

    // C: corpus and mutations
    let corpus = std::sync::Arc::new(gens::corpus());
    ctx.class("C.corpus-files", corpus.len() as u64);
    for t in corpus.iter() {
        ctx.add_evals(1);
        record(ctx, &stats, t, check_input(t));
    }
    let n_mut = if ctx.thorough() { 300_000 } else { 20_000 };
    let muts = draw(ctx.args.seed, "c23:mut", &gens::mutated_corpus_strategy(corpus.clone()), n_mut);
    let results: Vec<(String, Result<ParseOutcome, (String, String)>)> = muts
        .into_par_iter()
        .map(|s| {
            let r = check_input(&s);
            (s, r)
        })
        .collect();
    ctx.add_evals(results.len() as u64);
    ctx.class("C.mutations", results.len() as u64);
    let mut seen = std::collections::BTreeSet::new();
    for (s, r) in results {
        if let Err((k, _)) = &r {
            if !seen.insert(k.clone()) && !ctx.is_known(k) {
                continue;
            }
        }
        record(ctx, &stats, &s, r);
    }

    let m = stats.max_ratio.lock().unwrap().clone();
    ctx.extra("max_steps_per_token", json!({"ratio": m.0, "input": m.1, "bound": format!("{} + {}*tokens", LINEAR_A, LINEAR_B)}));
    ctx.finish(
        rule,
        true,
        &[
            "`time roughly linear` is checked as parser steps <= 4096 + 1024*tokens, counted by the cfg(capy_verif) hook in crates/parser",
            "wall-clock time is never used as an oracle",
        ],
        &replayer,
    )
}
