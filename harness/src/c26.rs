//! C26 — inference scheduling offers exactly the ready work and detects true cycles.
//!
//! Histories follow InferenceCtx::finish's usage protocol on topo::TopoSort: seed with `extend`,
//! then rounds: offered = peek_all() or (on CycleErr) peek_all_cyclic(); each offered item, in
//! order, either completes (`remove`) or registers dependencies (`insert_deps`) on a non-empty
//! set of not-yet-completed items. The oracle is a reference model: a pending set and a
//! waits-on map.

use std::collections::{BTreeMap, BTreeSet};

use crate::common::*;
use proptest::prelude::*;
use serde_json::json;
use topo::TopoSort;

type Item = u8;

#[derive(Debug, Clone, PartialEq, Eq, Hash)]
pub enum Choice {
    Complete,
    /// bitmask over item ids of the dependencies to register
    Deps(u16),
}

#[derive(Debug, Clone)]
pub struct History {
    pub seeds: Vec<Item>,
    /// choices consumed in order, one per offered item per round
    pub choices: Vec<Choice>,
    pub max_rounds: usize,
    pub universe: u8,
}

#[derive(Default, Clone)]
struct Model {
    pending: BTreeSet<Item>,
    waits: BTreeMap<Item, BTreeSet<Item>>,
    completed: BTreeSet<Item>,
}

impl Model {
    fn ready(&self) -> BTreeSet<Item> {
        self.pending
            .iter()
            .copied()
            .filter(|i| self.waits.get(i).is_none_or(|w| w.is_empty()))
            .collect()
    }
    fn complete(&mut self, x: Item) {
        self.pending.remove(&x);
        self.waits.remove(&x);
        self.completed.insert(x);
        for w in self.waits.values_mut() {
            w.remove(&x);
        }
    }
    fn add_dep(&mut self, parent: Item, child: Item) {
        self.pending.insert(parent);
        self.pending.insert(child);
        self.waits.entry(parent).or_default().insert(child);
    }
}

pub struct Outcome {
    pub rounds: usize,
    pub cyclic_rounds: usize,
    pub reoffered: bool,
    pub emptied: bool,
    pub trace: Vec<String>,
}

/// Interprets a history against the implementation and the model in lock step.
pub fn interpret(h: &History) -> Result<Outcome, (String, String)> {
    let mut trace = Vec::new();
    let fail = |key: &str, msg: String, trace: &Vec<String>| -> (String, String) {
        (key.to_string(), format!("{msg}\ntrace:\n  {}", trace.join("\n  ")))
    };
    let mut topo: TopoSort<Item> = TopoSort::new();
    let mut model = Model::default();
    topo.extend(h.seeds.iter().copied());
    for s in &h.seeds {
        model.pending.insert(*s);
    }
    trace.push(format!("extend({:?})", h.seeds));
    let mut ci = 0usize;
    let mut offered_count: BTreeMap<Item, usize> = BTreeMap::new();
    let mut reoffered = false;
    let mut cyclic_rounds = 0;
    let mut rounds = 0;
    for _round in 0..h.max_rounds {
        // I4
        if topo.is_empty() != model.pending.is_empty() {
            return Err(fail(
                "C26:I4:is_empty",
                format!("is_empty() = {} but model pending = {:?}", topo.is_empty(), model.pending),
                &trace,
            ));
        }
        if topo.len() != model.pending.len() {
            return Err(fail(
                "C26:I4:len",
                format!("len() = {} but model pending = {:?}", topo.len(), model.pending),
                &trace,
            ));
        }
        if model.pending.is_empty() {
            break;
        }
        rounds += 1;
        let ready = model.ready();
        let offered: Vec<Item> = match topo.peek_all() {
            Ok(v) => {
                let got: BTreeSet<Item> = v.iter().map(|x| **x).collect();
                trace.push(format!("peek_all() = Ok({:?})", v));
                if got.len() != v.len() {
                    return Err(fail("C26:I1:duplicate-offer", format!("peek_all offered an item twice: {:?}", v), &trace));
                }
                if ready.is_empty() {
                    return Err(fail(
                        "C26:I2:missed-cycle",
                        format!("every pending item waits on a pending item (model waits {:?}) but peek_all returned Ok({:?})", model.waits, got),
                        &trace,
                    ));
                }
                if got != ready {
                    let key = if got.is_subset(&ready) { "C26:I1:ready-not-offered" } else { "C26:I1:unready-offered" };
                    return Err(fail(key, format!("peek_all offered {:?}, model ready set is {:?} (waits {:?})", got, ready, model.waits), &trace));
                }
                if topo.in_cycle() {
                    return Err(fail("C26:I2:in_cycle-with-ready", format!("in_cycle() is true although {:?} are ready", ready), &trace));
                }
                if topo.peek_all_cyclic().is_some() {
                    return Err(fail("C26:I2:cyclic-with-ready", format!("peek_all_cyclic() is Some although {:?} are ready", ready), &trace));
                }
                v.into_iter().copied().collect()
            }
            Err(_) => {
                trace.push("peek_all() = Err(CycleErr)".into());
                if !ready.is_empty() {
                    return Err(fail(
                        "C26:I2:false-cycle",
                        format!("CycleErr reported although {:?} have no pending dependency (waits {:?})", ready, model.waits),
                        &trace,
                    ));
                }
                if !topo.in_cycle() {
                    return Err(fail("C26:I2:in_cycle-disagrees", "peek_all() = CycleErr but in_cycle() = false".into(), &trace));
                }
                cyclic_rounds += 1;
                match topo.peek_all_cyclic() {
                    Some(v) => {
                        let got: BTreeSet<Item> = v.iter().map(|x| **x).collect();
                        trace.push(format!("peek_all_cyclic() = {:?}", v));
                        if got != model.pending || got.len() != v.len() {
                            return Err(fail(
                                "C26:I2:cyclic-set",
                                format!("peek_all_cyclic offered {:?}, model pending set is {:?}", v, model.pending),
                                &trace,
                            ));
                        }
                        let mut v: Vec<Item> = v.into_iter().copied().collect();
                        v.sort();
                        v
                    }
                    None => {
                        return Err(fail("C26:I2:cyclic-none", "CycleErr but peek_all_cyclic() = None".into(), &trace));
                    }
                }
            }
        };
        // I3: completed items are never offered again
        for x in &offered {
            if model.completed.contains(x) {
                return Err(fail("C26:I3:completed-offered-again", format!("item {} was offered after it completed", x), &trace));
            }
            let c = offered_count.entry(*x).or_insert(0);
            *c += 1;
            if *c > 1 {
                reoffered = true;
            }
        }
        for x in offered {
            let choice = h.choices.get(ci).cloned().unwrap_or(Choice::Complete);
            ci += 1;
            // dependencies may only name not-yet-completed items inside the universe
            let deps: Vec<Item> = match &choice {
                Choice::Complete => vec![],
                Choice::Deps(mask) => (0..h.universe).filter(|i| mask & (1 << i) != 0 && !model.completed.contains(i)).collect(),
            };
            if deps.is_empty() {
                let existed = topo.remove(&x);
                trace.push(format!("remove({x}) = {existed}"));
                if !existed {
                    return Err(fail("C26:I4:remove-missing", format!("remove({x}) reported the offered item as absent"), &trace));
                }
                model.complete(x);
            } else {
                trace.push(format!("insert_deps({x}, {:?})", deps));
                topo.insert_deps(x, deps.iter().copied());
                for d in deps {
                    model.add_dep(x, d);
                }
            }
        }
    }
    let emptied = model.pending.is_empty();
    if topo.is_empty() != emptied {
        return Err(fail(
            "C26:I4:is_empty",
            format!("at end: is_empty() = {} but model pending = {:?}", topo.is_empty(), model.pending),
            &trace,
        ));
    }
    Ok(Outcome { rounds, cyclic_rounds, reoffered, emptied, trace })
}

fn encode(h: &History) -> Vec<u8> {
    let v = json!({
        "seeds": h.seeds,
        "universe": h.universe,
        "max_rounds": h.max_rounds,
        "choices": h.choices.iter().map(|c| match c { Choice::Complete => json!("complete"), Choice::Deps(m) => json!(m) }).collect::<Vec<_>>(),
    });
    serde_json::to_vec_pretty(&v).unwrap()
}

fn decode(bytes: &[u8]) -> Option<History> {
    let v: serde_json::Value = serde_json::from_slice(bytes).ok()?;
    Some(History {
        seeds: v["seeds"].as_array()?.iter().filter_map(|x| x.as_u64().map(|x| x as u8)).collect(),
        universe: v["universe"].as_u64()? as u8,
        max_rounds: v["max_rounds"].as_u64()? as usize,
        choices: v["choices"]
            .as_array()?
            .iter()
            .map(|c| match c.as_u64() {
                Some(m) => Choice::Deps(m as u16),
                None => Choice::Complete,
            })
            .collect(),
    })
}

fn check_history(ctx: &Ctx, h: &History) -> Result<(), (String, String)> {
    match catch(|| interpret(h)) {
        Err(k) => Err((k, format!("TopoSort panicked on history {:?}", h))),
        Ok(Err(e)) => Err(e),
        Ok(Ok(o)) => {
            ctx.add_evals(1);
            if o.cyclic_rounds > 0 {
                ctx.class("with-cycle-breaking-round", 1);
            }
            if o.reoffered {
                ctx.class("item-offered-twice", 1);
            }
            if o.emptied {
                ctx.class("emptied", 1);
            }
            if o.cyclic_rounds > 0 || o.reoffered {
                ctx.nontrivial(fnv(&encode(h)));
                if ctx.sample_count() < 5 && o.cyclic_rounds > 0 && o.reoffered {
                    ctx.sample(json!({"seeds": h.seeds, "trace": o.trace}));
                }
            }
            Ok(())
        }
    }
}

/// Exhaustive DFS: all histories over `n_seed` seeded items (+`fresh` unseeded), up to `rounds`
/// rounds, every offered item choosing among complete / every non-empty dependency subset.
fn exhaustive(ctx: &Ctx, n_seed: u8, fresh: u8, rounds: usize, count: &mut u64) {
    let universe = n_seed + fresh;
    let n_masks: u16 = 1 << universe;
    // iterative deepening over choice sequences: extend while the interpreter consumes choices
    let mut stack: Vec<(Vec<Choice>, bool)> = vec![(vec![], true)];
    while let Some((prefix, evaluate)) = stack.pop() {
        let h = History { seeds: (0..n_seed).collect(), choices: prefix.clone(), max_rounds: rounds, universe };
        // how many choices does this history consume when padded with Complete?
        let consumed = consumed_choices(&h);
        if evaluate {
            if let Err((k, d)) = check_history(ctx, &h) {
                ctx.fail(&k, &d, &encode(&h));
                continue;
            }
            *count += 1;
        }
        if consumed > prefix.len() {
            // branch on the next unconstrained choice
            for m in 1..n_masks {
                let mut p = prefix.clone();
                p.push(Choice::Deps(m));
                stack.push((p, true));
            }
            let mut p = prefix.clone();
            p.push(Choice::Complete);
            // `prefix + Complete` equals `prefix` padded (already evaluated); only descend
            if consumed > p.len() {
                stack.push((p, false));
            }
        }
    }
}

fn consumed_choices(h: &History) -> usize {
    // replay on the model only
    let mut model = Model::default();
    for s in &h.seeds {
        model.pending.insert(*s);
    }
    let mut ci = 0;
    for _ in 0..h.max_rounds {
        if model.pending.is_empty() {
            break;
        }
        let ready = model.ready();
        let offered: Vec<Item> = if ready.is_empty() { model.pending.iter().copied().collect() } else { ready.into_iter().collect() };
        for x in offered {
            let choice = h.choices.get(ci).cloned().unwrap_or(Choice::Complete);
            ci += 1;
            let deps: Vec<Item> = match &choice {
                Choice::Complete => vec![],
                Choice::Deps(mask) => (0..h.universe).filter(|i| mask & (1 << i) != 0 && !model.completed.contains(i)).collect(),
            };
            if deps.is_empty() {
                model.complete(x);
            } else {
                for d in deps {
                    model.add_dep(x, d);
                }
            }
        }
    }
    ci
}

pub fn run(ctx: &Ctx) -> i32 {
    let rule = "histories in InferenceCtx::finish's protocol over TopoSort<u8>; exhaustive DFS over (seeded items, fresh items, rounds) bounds listed under `exhaustive_bounds`, plus proptest histories over <= 4 seeded + 2 fresh items x <= 8 rounds; non-trivial = history with >= 1 cycle-breaking round or an item offered >= 2 times, distinct by encoded history";
    let replayer = |bytes: &[u8]| -> Option<String> {
        let h = decode(bytes)?;
        match catch(|| interpret(&h)) {
            Err(k) => Some(k),
            Ok(Err((k, _))) => Some(k),
            Ok(Ok(_)) => None,
        }
    };
    if let Some(p) = &ctx.args.replay {
        let bytes = std::fs::read(p).unwrap_or_else(|e| {
            eprintln!("cannot read replay: {e}");
            std::process::exit(2)
        });
        let Some(h) = decode(&bytes) else {
            eprintln!("replay file is not a C26 history");
            return 2;
        };
        if let Err((k, d)) = check_history(ctx, &h) {
            ctx.fail(&k, &d, &bytes);
        }
        return ctx.finish(rule, false, &[], &replayer);
    }

    let mut bounds = Vec::new();
    let plans: &[(u8, u8, usize)] = if ctx.thorough() {
        &[(1, 1, 6), (2, 0, 5), (2, 1, 3), (3, 0, 2), (3, 1, 2)]
    } else {
        &[(1, 1, 5), (2, 0, 4), (2, 1, 2), (3, 0, 2)]
    };
    for (n, fresh, rounds) in plans {
        let mut count = 0;
        exhaustive(ctx, *n, *fresh, *rounds, &mut count);
        bounds.push(json!({"seeded": n, "fresh": fresh, "rounds": rounds, "histories": count}));
    }
    ctx.extra("exhaustive_bounds", json!(bounds));

    // random histories
    let cases = if ctx.thorough() { 20_000_000 } else { 200_000 };
    let strat = (1u8..=4, 0u8..=2, proptest::collection::vec(prop_oneof![2 => Just(Choice::Complete), 5 => (1u16..64).prop_map(Choice::Deps)], 0..40), 1usize..=8)
        .prop_map(|(n, fresh, choices, rounds)| History { seeds: (0..n).collect(), choices, max_rounds: rounds, universe: n + fresh });
    search(ctx, "c26", cases, &strat, |h| encode(h), |h| check_history(ctx, h));

    ctx.finish(
        rule,
        true,
        &[
            "offer order inside a round is not constrained (sets are compared)",
            "dependencies are only registered on not-yet-completed items, as the checker does",
        ],
        &replayer,
    )
}
