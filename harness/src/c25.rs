//! C25 — reported line and column are exactly right.
//!
//! Part A (exhaustive): all strings of length <= L over {a, \n, \r, \t, é} and every byte offset
//! 0..=len; oracle: line = number of '\n' before the offset, col = offset - start of that line.
//! Part B: diagnostics (syntax errors + validation warnings + indexing/lowering diagnostics via
//! the front end) of generated inputs rendered through diagnostics::Diagnostic::display; the
//! `--> at file:L:C` header must name the 1-based model position of range().start().

use crate::common::*;
use crate::gens as gen_;
use line_index::LineIndex;
use rayon::prelude::*;
use serde_json::json;
use text_size::TextSize;

pub fn model(text: &str, offset: usize) -> (u32, u32) {
    let bytes = text.as_bytes();
    let mut line = 0u32;
    let mut line_start = 0usize;
    for (i, b) in bytes.iter().enumerate() {
        if i >= offset {
            break;
        }
        if *b == b'\n' {
            line += 1;
            line_start = i + 1;
        }
    }
    (line, (offset - line_start) as u32)
}

/// Returns Err(key, description) if some offset of `text` is mapped wrongly.
pub fn check_text(text: &str) -> Result<u64, (String, String)> {
    let idx = match catch(|| LineIndex::new(text)) {
        Ok(i) => i,
        Err(k) => return Err((k, format!("LineIndex::new panicked on {:?}", text))),
    };
    let mut n = 0;
    for off in 0..=text.len() {
        let got = catch(|| idx.line_col(TextSize::from(off as u32)));
        let want = model(text, off);
        match got {
            Err(k) => return Err((k, format!("line_col panicked on {:?} offset {}", text, off))),
            Ok((l, c)) => {
                if (l.0, c.0) != want {
                    let kind = if l.0 != want.0 { "line" } else { "col" };
                    return Err((
                        format!("C25:linecol:{kind}"),
                        format!(
                            "text {:?} offset {}: line_col = ({}, {}), model = ({}, {})",
                            text, off, l.0, c.0, want.0, want.1
                        ),
                    ));
                }
            }
        }
        n += 1;
    }
    Ok(n)
}

const ALPHA: [&str; 5] = ["a", "\n", "\r", "\t", "é"];

fn nth_string(mut i: u64, len: usize) -> String {
    let mut s = String::new();
    for _ in 0..len {
        s.push_str(ALPHA[(i % 5) as usize]);
        i /= 5;
    }
    s
}

/// Renders every diagnostic the front end (through type inference) produces for `text`; every
/// `--> at` header must name the 1-based model position of the range it belongs to: the first the
/// diagnostic's own range start, the second (if any) the attached help's range start.
pub fn check_rendered(ctx: &Ctx, text: &str) -> Result<u64, (String, String)> {
    let res = gen_::frontend(text, true);
    if let Some(why) = &res.stopped {
        let k = why.split(':').next().unwrap_or("stopped").to_string();
        ctx.class(&format!("partB.stopped.{k}"), 1);
    }
    let mut n = 0;
    for d in res.diags {
        let Some(lines) = d.lines else {
            ctx.class("partB.render-panic(C06's business)", 1);
            continue;
        };
        let headers: Vec<&String> = lines.iter().filter(|l| l.contains("--> at ")).collect();
        let mut expected: Vec<(u32, &str)> = vec![(d.start, "diagnostic")];
        if let Some(h) = d.help_start {
            expected.push((h, "help"));
        }
        if headers.len() != expected.len() {
            return Err((
                "C25:render:header-count".into(),
                format!("input {:?}: {} `--> at` headers for a diagnostic with {} ranges: {:?}", text, headers.len(), expected.len(), lines),
            ));
        }
        for ((start, what), header) in expected.iter().zip(headers.iter()) {
            if *start as usize > text.len() {
                ctx.class("partB.range-start-beyond-input(C23's business)", 1);
                continue;
            }
            let want = model(text, *start as usize);
            let expect_suffix = format!(":{}:{}", want.0 + 1, want.1 + 1);
            if !header.trim_end().ends_with(&expect_suffix) {
                return Err((
                    format!("C25:render:position:{what}:{}", d.phase),
                    format!(
                        "input {:?}: the {what} range of a {} diagnostic starts at byte {} = line {} col {} (1-based {}), header is {:?}",
                        text, d.phase, start, want.0, want.1, expect_suffix, header
                    ),
                ));
            }
            n += 1;
            ctx.class(&format!("partB.header.{what}.{}", d.phase), 1);
            if want.0 > 0 {
                ctx.nontrivial(fnv(format!("B:{text}:{start}").as_bytes()));
            }
        }
    }
    Ok(n)
}

pub fn replay_one(ctx: &Ctx, bytes: &[u8]) -> Option<String> {
    let text = String::from_utf8_lossy(bytes).to_string();
    if let Err((k, d)) = check_text(&text) {
        ctx.fail(&k, &d, bytes);
        return Some(k);
    }
    if let Err((k, d)) = check_rendered(ctx, &text) {
        ctx.fail(&k, &d, bytes);
        return Some(k);
    }
    None
}

fn part_b_inputs(ctx: &Ctx) -> Vec<String> {
    let n_inputs = if ctx.thorough() { 30000 } else { 1200 };
    let mut inputs = gen_::mixed_inputs(ctx.args.seed, "c25", n_inputs, 400);
    inputs.extend(gen_::corpus());
    inputs.extend(gen_::type_error_inputs());
    inputs
}

/// Child mode for part B: the in-process front end has no fuel of its own, so a compiler hang on
/// a generated input (C06's business) would take this process down; the child runs under an
/// address-space limit and reports after every input so the parent can skip the culprit.
pub fn part_b_child(ctx: &Ctx, from: usize) -> i32 {
    unsafe {
        let lim = libc::rlimit { rlim_cur: 4 << 30, rlim_max: 4 << 30 };
        libc::setrlimit(libc::RLIMIT_AS, &lim);
    }
    let inputs = part_b_inputs(ctx);
    for (i, text) in inputs.iter().enumerate().skip(from) {
        crate::outln!("START {i}");
        match check_rendered(ctx, text) {
            Ok(n) => crate::outln!("OK {i} {n}"),
            Err((k, d)) => {
                let min = gen_::shrink_text(text, &|t| matches!(check_rendered(ctx, t), Err((k2, _)) if k2 == k));
                let d2 = match check_rendered(ctx, &min) {
                    Err((_, d2)) => d2,
                    _ => d,
                };
                crate::outln!("ERR {i} {}", serde_json::to_string(&json!({"key": k, "desc": d2, "min": min})).unwrap());
            }
        }
    }
    crate::outln!("STATS {}", ctx.stats_json());
    0
}

pub fn run(ctx: &Ctx) -> i32 {
    let rule = "Part A: every string of length <= L over {a,\\n,\\r,\\t,é} (L=7 quick, 8 thorough) x every byte offset 0..=len, exhaustive; non-trivial = (string, offset) pairs with >= 1 newline before the offset (distinct by construction). Part B: diagnostics of generated token soups / corpus mutations rendered through Diagnostic::display; non-trivial = diagnostic starting after line 0 (distinct by (input, start)).";
    if let Some(p) = &ctx.args.replay {
        let bytes = std::fs::read(p).unwrap_or_else(|e| {
            eprintln!("cannot read replay: {e}");
            std::process::exit(2)
        });
        ctx.add_evals(1);
        replay_one(ctx, &bytes);
        return ctx.finish(rule, false, &[], &|_| None);
    }

    // Part A
    let max_len = if ctx.thorough() { 8 } else { 7 };
    for len in 0..=max_len {
        let count = 5u64.pow(len as u32);
        let res: Vec<(u64, u64, Option<(String, String, String)>)> = (0..count)
            .into_par_iter()
            .map(|i| {
                let s = nth_string(i, len);
                match check_text(&s) {
                    Ok(n) => {
                        // non-trivial pairs: offsets strictly after the first newline
                        let nt = match s.find('\n') {
                            Some(p) => (s.len() - p) as u64,
                            None => 0,
                        };
                        (n, nt, None)
                    }
                    Err((k, d)) => (0, 0, Some((k, d, s))),
                }
            })
            .collect();
        for (n, nt, err) in res {
            ctx.add_evals(n);
            ctx.nontrivial_distinct(nt);
            if let Some((k, d, s)) = err {
                ctx.fail(&k, &d, s.as_bytes());
            }
        }
        ctx.class(&format!("partA.len{len}.strings"), count);
    }
    ctx.sample(json!({"part": "A", "text": "a\né\r\n\ta", "offset": 5, "model_line_col": model("a\né\r\n\ta", 5)}));

    // Part B (in child processes, see part_b_child)
    let inputs = part_b_inputs(ctx);
    let mut rendered_total = 0u64;
    let mut from = 0usize;
    let exe = std::env::current_exe().unwrap();
    let tier = if ctx.thorough() { "thorough" } else { "quick" };
    let mut restarts = 0;
    while from < inputs.len() {
        let out = std::process::Command::new(&exe)
            .args(["C25", "--tier", tier, "--seed", &ctx.args.seed.to_string(), "--partb-child", &from.to_string()])
            .output();
        let Ok(out) = out else {
            eprintln!("cannot spawn part B child");
            return 2;
        };
        let text = String::from_utf8_lossy(&out.stdout).to_string();
        let mut last_started = None;
        let mut finished = false;
        for line in text.lines() {
            if let Some(i) = line.strip_prefix("START ") {
                last_started = i.parse::<usize>().ok();
            } else if let Some(rest) = line.strip_prefix("OK ") {
                let mut it = rest.split(' ');
                let _i = it.next();
                rendered_total += it.next().and_then(|x| x.parse::<u64>().ok()).unwrap_or(0);
            } else if let Some(rest) = line.strip_prefix("ERR ") {
                if let Some((_, js)) = rest.split_once(' ') {
                    if let Ok(v) = serde_json::from_str::<serde_json::Value>(js) {
                        ctx.fail(v["key"].as_str().unwrap_or("?"), v["desc"].as_str().unwrap_or(""), v["min"].as_str().unwrap_or("").as_bytes());
                    }
                }
            } else if let Some(js) = line.strip_prefix("STATS ") {
                ctx.merge_stats_json(js);
                finished = true;
            }
        }
        if finished {
            break;
        }
        // the child died (resource limit / abort) while working on `last_started`: skip that input
        let culprit = last_started.unwrap_or(from);
        ctx.class("partB.front-end-died-on-input(C06's business)", 1);
        let _ = std::fs::create_dir_all("/verif/work");
        let _ = std::fs::write(format!("/verif/work/c25-frontend-died-{}.capy", culprit), &inputs[culprit]);
        from = culprit + 1;
        restarts += 1;
        if restarts > 50 {
            eprintln!("part B child keeps dying");
            return 2;
        }
    }
    if ctx.sample_count() < 6 {
        if let Some(t) = gen_::type_error_inputs().first() {
            ctx.sample(json!({"part": "B", "input": t, "note": "near-valid program with a type error that carries a help range"}));
        }
    }
    ctx.add_evals(rendered_total);
    ctx.class("partB.inputs", inputs.len() as u64);
    ctx.class("partB.diagnostics_rendered", rendered_total);

    ctx.finish(
        rule,
        true,
        &[
            "columns are byte offsets within the line, as the property defines them",
            "Part A is exhaustive over its bounded domain; Part B is sampled",
            "a panic while rendering a diagnostic is C06's concern and only counted here",
        ],
        &|bytes| {
            let t = String::from_utf8_lossy(bytes).to_string();
            check_text(&t).err().map(|e| e.0).or_else(|| check_rendered(ctx, &t).err().map(|e| e.0))
        },
    )
}
