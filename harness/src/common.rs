//! Shared machinery of the E-lib checks: argument parsing, known findings, evidence,
//! violation reporting, panic capture.

use std::cell::RefCell;
use std::collections::{BTreeMap, BTreeSet};
use std::panic::{self, AssertUnwindSafe};
use std::path::{Path, PathBuf};
use std::sync::Mutex;
use std::time::Instant;

use serde_json::{Value, json};

pub const VERIF: &str = "/verif";

// The repository's library crates print debug lines to stdout (`println!("both None")` in
// hir::index, ...). The harness therefore moves the real stdout to a saved descriptor and points
// fd 1 at /dev/null; everything the harness itself reports goes through `outln!`.
pub static REAL_STDOUT: std::sync::OnceLock<Mutex<std::fs::File>> = std::sync::OnceLock::new();

pub fn capture_stdout() {
    use std::os::fd::FromRawFd;
    unsafe {
        let saved = libc::dup(1);
        let devnull = libc::open(c"/dev/null".as_ptr(), libc::O_WRONLY);
        libc::dup2(devnull, 1);
        libc::close(devnull);
        let _ = REAL_STDOUT.set(Mutex::new(std::fs::File::from_raw_fd(saved)));
    }
}

#[macro_export]
macro_rules! outln {
    ($($arg:tt)*) => {{
        use std::io::Write;
        let line = format!($($arg)*);
        match $crate::common::REAL_STDOUT.get() {
            Some(f) => { let _ = writeln!(f.lock().unwrap(), "{}", line); }
            None => println!("{}", line),
        }
    }};
}

#[derive(Clone, Copy, PartialEq, Eq, Debug)]
pub enum Tier {
    Quick,
    Thorough,
}

#[derive(Debug, Clone)]
pub struct Args {
    pub property: String,
    pub tier: Tier,
    pub seed: u64,
    pub replay: Option<PathBuf>,
    pub extra: Vec<String>,
}

pub fn parse_args() -> Args {
    let mut it = std::env::args().skip(1);
    let property = it.next().unwrap_or_else(|| usage());
    let mut tier = match std::env::var("VERIF_TIER").ok().as_deref() {
        Some("thorough") => Tier::Thorough,
        _ => Tier::Quick,
    };
    let mut seed: u64 = std::env::var("VERIF_SEED")
        .ok()
        .and_then(|s| s.trim().parse::<i128>().ok())
        .map(|v| v as u64)
        .unwrap_or(0);
    let mut replay = None;
    let mut extra = Vec::new();
    while let Some(a) = it.next() {
        match a.as_str() {
            "--tier" => {
                tier = match it.next().as_deref() {
                    Some("quick") => Tier::Quick,
                    Some("thorough") => Tier::Thorough,
                    _ => usage(),
                }
            }
            "--seed" => seed = it.next().and_then(|s| s.parse::<i128>().ok()).map(|v| v as u64).unwrap_or_else(|| usage()),
            "--replay" => replay = Some(PathBuf::from(it.next().unwrap_or_else(|| usage()))),
            other => extra.push(other.to_string()),
        }
    }
    Args { property, tier, seed, replay, extra }
}

fn usage() -> ! {
    eprintln!("usage: capyv-lib <property> [--tier quick|thorough] [--seed N] [--replay PATH]");
    std::process::exit(2)
}

// ---------------------------------------------------------------------------------------------
// panic capture

thread_local! {
    static LAST_PANIC: RefCell<Option<(String, String)>> = const { RefCell::new(None) };
}

pub fn install_panic_hook() {
    panic::set_hook(Box::new(|info| {
        let msg = if let Some(s) = info.payload().downcast_ref::<&str>() {
            s.to_string()
        } else if let Some(s) = info.payload().downcast_ref::<String>() {
            s.clone()
        } else {
            "<non-string panic>".to_string()
        };
        let loc = info
            .location()
            .map(|l| l.file().to_string())
            .unwrap_or_else(|| "<unknown>".into());
        LAST_PANIC.with(|p| *p.borrow_mut() = Some((loc, msg)));
    }));
}

/// Runs `f`, returning Err(key) if it panicked. The key has the form
/// `crash:<file>:<normalised message>` (numbers stripped, no line numbers).
pub fn catch<T>(f: impl FnOnce() -> T) -> Result<T, String> {
    LAST_PANIC.with(|p| *p.borrow_mut() = None);
    match panic::catch_unwind(AssertUnwindSafe(f)) {
        Ok(v) => Ok(v),
        Err(_) => {
            let (loc, msg) = LAST_PANIC
                .with(|p| p.borrow_mut().take())
                .unwrap_or(("<unknown>".into(), "<unknown>".into()));
            Err(crash_key(&loc, &msg))
        }
    }
}

pub fn crash_key(loc: &str, msg: &str) -> String {
    let loc = loc
        .strip_prefix("/repo/")
        .unwrap_or(loc)
        .to_string();
    let loc = match loc.find("/registry/src/") {
        Some(i) => {
            // keep crate-name/.../file of registry crates
            let rest = &loc[i + "/registry/src/".len()..];
            rest.splitn(2, '/').nth(1).unwrap_or(rest).to_string()
        }
        None => loc,
    };
    format!("crash:{}:{}", loc, normalise_msg(msg))
}

/// Strips digits runs and quoted/backticked payloads so that one defect has one key.
pub fn normalise_msg(msg: &str) -> String {
    let first = msg.lines().next().unwrap_or("");
    let mut out = String::new();
    let mut prev_digit = false;
    for c in first.chars().take(160) {
        if c.is_ascii_digit() {
            if !prev_digit {
                out.push('N');
            }
            prev_digit = true;
        } else {
            prev_digit = false;
            out.push(c);
        }
    }
    out
}

// ---------------------------------------------------------------------------------------------
// known findings

#[derive(Debug, Clone)]
pub struct Finding {
    pub status: String,
    pub property: String,
    pub key: String,
    pub description: String,
    pub replay: Option<String>,
}

pub fn load_findings(property: &str) -> Vec<Finding> {
    let path = Path::new(VERIF).join("known_findings.json");
    let Ok(text) = std::fs::read_to_string(&path) else {
        return Vec::new();
    };
    let v: Value = match serde_json::from_str(&text) {
        Ok(v) => v,
        Err(e) => {
            eprintln!("known_findings.json does not parse: {e}");
            std::process::exit(2);
        }
    };
    let mut out = Vec::new();
    for f in v["findings"].as_array().cloned().unwrap_or_default() {
        let props: Vec<String> = match &f["property"] {
            Value::String(s) => vec![s.clone()],
            Value::Array(a) => a.iter().filter_map(|x| x.as_str().map(String::from)).collect(),
            _ => vec![],
        };
        if !props.iter().any(|p| p == property) {
            continue;
        }
        out.push(Finding {
            status: f["status"].as_str().unwrap_or("open").to_string(),
            property: property.to_string(),
            key: f["key"].as_str().unwrap_or("").to_string(),
            description: f["description"].as_str().unwrap_or("").to_string(),
            replay: f["replays"][property]
                .as_str()
                .or_else(|| f["replay"].as_str())
                .map(String::from),
        });
    }
    out
}

// ---------------------------------------------------------------------------------------------
// run context

pub struct Violation {
    pub key: String,
    pub description: String,
    pub replay: Vec<u8>,
}

pub struct Ctx {
    pub args: Args,
    pub start: Instant,
    pub findings: Vec<Finding>,
    pub open_keys: BTreeSet<String>,
    inner: Mutex<CtxInner>,
}

#[derive(Default)]
struct CtxInner {
    evaluations: u64,
    nontrivial: BTreeSet<u64>,
    nontrivial_count_only: u64,
    classes: BTreeMap<String, u64>,
    samples: Vec<Value>,
    known_hits: BTreeMap<String, u64>,
    violations: BTreeMap<String, Violation>,
    extra: BTreeMap<String, Value>,
}

impl Ctx {
    pub fn new(args: Args) -> Ctx {
        let findings = load_findings(&args.property);
        let open_keys = findings
            .iter()
            .filter(|f| f.status == "open")
            .map(|f| f.key.clone())
            .collect();
        Ctx {
            args,
            start: Instant::now(),
            findings,
            open_keys,
            inner: Mutex::new(CtxInner::default()),
        }
    }

    pub fn thorough(&self) -> bool {
        self.args.tier == Tier::Thorough
    }

    pub fn strict(&self) -> bool {
        self.args.replay.is_some()
    }

    /// development aid: CAPYV_COLLECT_ALL=1 keeps searching past every failure and lists the keys
    pub fn collect_all(&self) -> bool {
        std::env::var("CAPYV_COLLECT_ALL").is_ok()
    }

    pub fn is_known(&self, key: &str) -> bool {
        !self.strict() && (self.open_keys.contains(key) || self.collect_all())
    }

    pub fn add_evals(&self, n: u64) {
        self.inner.lock().unwrap().evaluations += n;
    }

    /// Registers a distinct non-trivial case by content hash.
    pub fn nontrivial(&self, hash: u64) {
        self.inner.lock().unwrap().nontrivial.insert(hash);
    }

    /// For exhaustive enumerators whose cases are distinct by construction.
    pub fn nontrivial_distinct(&self, n: u64) {
        self.inner.lock().unwrap().nontrivial_count_only += n;
    }

    pub fn class(&self, name: &str, n: u64) {
        *self.inner.lock().unwrap().classes.entry(name.to_string()).or_insert(0) += n;
    }

    pub fn sample(&self, v: Value) {
        let mut i = self.inner.lock().unwrap();
        if i.samples.len() < 12 {
            i.samples.push(v);
        }
    }

    pub fn sample_count(&self) -> usize {
        self.inner.lock().unwrap().samples.len()
    }

    pub fn extra(&self, k: &str, v: Value) {
        self.inner.lock().unwrap().extra.insert(k.to_string(), v);
    }

    /// Records a failing case. Returns true if the key is a listed open finding (search should
    /// continue), false if it is a new violation.
    pub fn fail(&self, key: &str, description: &str, replay: &[u8]) -> bool {
        let mut i = self.inner.lock().unwrap();
        if !self.strict() && self.open_keys.contains(key) {
            *i.known_hits.entry(key.to_string()).or_insert(0) += 1;
            return true;
        }
        if !self.strict() && self.collect_all() {
            let c = i.known_hits.entry(key.to_string()).or_insert(0);
            *c += 1;
            if *c == 1 {
                eprintln!("COLLECT {key}\n    {}", description.lines().next().unwrap_or(""));
            }
            return true;
        }
        let e = i.violations.entry(key.to_string());
        use std::collections::btree_map::Entry;
        match e {
            Entry::Vacant(v) => {
                v.insert(Violation {
                    key: key.to_string(),
                    description: description.to_string(),
                    replay: replay.to_vec(),
                });
            }
            Entry::Occupied(mut o) => {
                // keep the smallest reproduction per key
                if replay.len() < o.get().replay.len() {
                    o.insert(Violation {
                        key: key.to_string(),
                        description: description.to_string(),
                        replay: replay.to_vec(),
                    });
                }
            }
        }
        false
    }

    pub fn violation_count(&self) -> usize {
        self.inner.lock().unwrap().violations.len()
    }

    /// (child -> parent) counters as JSON
    pub fn stats_json(&self) -> String {
        let i = self.inner.lock().unwrap();
        json!({"classes": i.classes, "nontrivial": i.nontrivial.iter().collect::<Vec<_>>()}).to_string()
    }

    pub fn merge_stats_json(&self, js: &str) {
        let Ok(v) = serde_json::from_str::<Value>(js) else { return };
        let mut i = self.inner.lock().unwrap();
        if let Some(c) = v["classes"].as_object() {
            for (k, n) in c {
                *i.classes.entry(k.clone()).or_insert(0) += n.as_u64().unwrap_or(0);
            }
        }
        if let Some(a) = v["nontrivial"].as_array() {
            for h in a {
                if let Some(h) = h.as_u64() {
                    i.nontrivial.insert(h);
                }
            }
        }
    }

    /// For helper child processes: prints the violations found (the parent re-reports them) and
    /// writes neither evidence nor replay files.
    pub fn finish_child(&self) -> i32 {
        let i = self.inner.lock().unwrap();
        for v in i.violations.values() {
            outln!("violation key: {}", v.key);
            outln!("  {}", v.description.replace('\n', "\n  "));
            outln!("VIOLATION property={} replay=child", self.args.property);
        }
        if i.violations.is_empty() { 0 } else { 1 }
    }

    /// Writes evidence, prints VIOLATION lines, returns the process exit code.
    pub fn finish(
        &self,
        rule: &str,
        exhaustive: bool,
        assumptions: &[&str],
        replayer: &dyn Fn(&[u8]) -> Option<String>,
    ) -> i32 {
        let prop = self.args.property.clone();
        // (1) replay listed open findings
        let mut kf_lines = Vec::new();
        if !self.strict() {
            for f in self.findings.iter().filter(|f| f.status == "open") {
                let reproduced = match &f.replay {
                    Some(rel) => {
                        let p = Path::new(VERIF).join(rel);
                        match std::fs::read(&p) {
                            Ok(bytes) => match replayer(&bytes) {
                                Some(k) => k == f.key,
                                None => false,
                            },
                            Err(_) => false,
                        }
                    }
                    None => false,
                };
                let hits = self.inner.lock().unwrap().known_hits.get(&f.key).copied().unwrap_or(0);
                if reproduced || hits > 0 {
                    outln!("KNOWN-FINDING: property={} {} {}", prop, f.key, f.description);
                    kf_lines.push(json!({"key": f.key, "replayed": reproduced, "hits_in_search": hits}));
                } else {
                    outln!(
                        "note: listed finding {} of {} did not reproduce on this tree",
                        f.key, prop
                    );
                    kf_lines.push(json!({"key": f.key, "replayed": false, "hits_in_search": 0}));
                }
            }
        }
        let i = self.inner.lock().unwrap();
        // (2) violations
        let dir = Path::new(VERIF).join("replays").join(&prop);
        let mut n_viol = 0;
        for v in i.violations.values() {
            n_viol += 1;
            let path = if let Some(p) = &self.args.replay {
                p.clone()
            } else {
                let _ = std::fs::create_dir_all(&dir);
                let p = dir.join(format!("new-{:016x}.replay", fnv(v.key.as_bytes())));
                let _ = std::fs::write(&p, &v.replay);
                p
            };
            outln!("violation key: {}", v.key);
            outln!("  {}", v.description.replace('\n', "\n  "));
            outln!("VIOLATION property={} replay={}", prop, path.display());
        }
        // (3) evidence
        let distinct_nontrivial = i.nontrivial.len() as u64 + i.nontrivial_count_only;
        let mut coverage = json!({
            "evaluations": i.evaluations,
            "distinct_nontrivial": distinct_nontrivial,
            "rule": rule,
            "samples": i.samples,
            "exhaustive": exhaustive,
            "classes": i.classes,
            "known_finding_hits": i.known_hits,
            "known_findings": kf_lines,
        });
        for (k, v) in &i.extra {
            coverage[k] = v.clone();
        }
        let ev = json!({
            "property_id": prop,
            "tier": if self.thorough() { "thorough" } else { "quick" },
            "seed": self.args.seed as i64,
            "level": "exploration",
            "coverage": coverage,
            "assumptions": assumptions,
            "wall_s": self.start.elapsed().as_secs_f64(),
            "violations": n_viol,
        });
        if self.args.replay.is_none() {
            let evdir = Path::new(VERIF).join("evidence");
            let _ = std::fs::create_dir_all(&evdir);
            let p = evdir.join(format!("{}.json", prop));
            if let Err(e) = std::fs::write(&p, serde_json::to_string_pretty(&ev).unwrap()) {
                eprintln!("cannot write evidence {}: {e}", p.display());
                return 2;
            }
        }
        outln!(
            "{} {}: evaluations={} distinct_nontrivial={} violations={} wall={:.1}s",
            prop,
            if self.thorough() { "thorough" } else { "quick" },
            i.evaluations,
            distinct_nontrivial,
            n_viol,
            self.start.elapsed().as_secs_f64()
        );
        if n_viol > 0 {
            1
        } else if self.args.replay.is_none() && (i.evaluations == 0 || distinct_nontrivial < 2) {
            eprintln!("vacuous run: no non-trivial cases");
            2
        } else {
            0
        }
    }
}

pub fn fnv(bytes: &[u8]) -> u64 {
    let mut h: u64 = 0xcbf29ce484222325;
    for b in bytes {
        h ^= *b as u64;
        h = h.wrapping_mul(0x100000001b3);
    }
    h
}

// ---------------------------------------------------------------------------------------------
// proptest glue

use proptest::strategy::{Strategy, ValueTree};
use proptest::test_runner::{Config, RngAlgorithm, TestCaseError, TestError, TestRng, TestRunner};

pub fn runner(seed: u64, salt: &str, cases: u32) -> TestRunner {
    let mut s = [0u8; 32];
    let h1 = fnv(format!("{seed}:{salt}:a").as_bytes());
    let h2 = fnv(format!("{seed}:{salt}:b").as_bytes());
    let h3 = fnv(format!("{seed}:{salt}:c").as_bytes());
    let h4 = fnv(format!("{seed}:{salt}:d").as_bytes());
    s[0..8].copy_from_slice(&h1.to_le_bytes());
    s[8..16].copy_from_slice(&h2.to_le_bytes());
    s[16..24].copy_from_slice(&h3.to_le_bytes());
    s[24..32].copy_from_slice(&h4.to_le_bytes());
    TestRunner::new_with_rng(
        Config {
            cases,
            failure_persistence: None,
            max_shrink_iters: 4096,
            max_global_rejects: 1 << 20,
            verbose: 0,
            ..Config::default()
        },
        TestRng::from_seed(RngAlgorithm::ChaCha, &s),
    )
}

/// Runs a proptest search. `check` returns Err(key, description) for a failing case.
/// Known keys are counted and skipped so the search continues; the first unlisted failure is
/// shrunk by proptest and recorded with `to_replay` of the minimal value.
pub fn search<S: Strategy>(
    ctx: &Ctx,
    salt: &str,
    cases: u32,
    strategy: &S,
    to_replay: impl Fn(&S::Value) -> Vec<u8>,
    check: impl Fn(&S::Value) -> Result<(), (String, String)>,
) where
    S::Value: Clone + std::fmt::Debug,
{
    let mut r = runner(ctx.args.seed, salt, cases);
    let failing: RefCell<Option<(String, String)>> = RefCell::new(None);
    let result = r.run(strategy, |v| match check(&v) {
        Ok(()) => Ok(()),
        Err((key, desc)) => {
            if ctx.is_known(&key) {
                ctx.fail(&key, &desc, &[]);
                Ok(())
            } else {
                // while shrinking, only follow the same key
                let mut f = failing.borrow_mut();
                match &*f {
                    Some((k0, _)) if *k0 != key => Ok(()),
                    _ => {
                        *f = Some((key.clone(), desc));
                        Err(TestCaseError::fail(key))
                    }
                }
            }
        }
    });
    match result {
        Ok(()) => {}
        Err(TestError::Fail(_, value)) => {
            // re-evaluate the minimal value to get its description
            let (key, desc) = match check(&value) {
                Err(kd) => kd,
                Ok(()) => failing.borrow().clone().unwrap_or(("unknown".into(), "".into())),
            };
            ctx.fail(&key, &format!("{desc}\nminimal case: {:?}", value), &to_replay(&value));
        }
        Err(TestError::Abort(why)) => {
            eprintln!("proptest aborted: {why}");
            std::process::exit(2);
        }
    }
}

/// Draws `n` values from a strategy without a property (used to feed batch checks).
pub fn draw<S: Strategy>(seed: u64, salt: &str, strategy: &S, n: usize) -> Vec<S::Value> {
    let mut r = runner(seed, salt, n as u32);
    (0..n)
        .map(|_| strategy.new_tree(&mut r).expect("strategy").current())
        .collect()
}
