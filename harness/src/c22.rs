//! C22 — lexing is total and lossless.
//!
//! Oracle 1 (structure): no panic; token ranges start at 0, are contiguous and ordered, end at
//! the input length, every boundary a char boundary.
//! Oracle 2 (kind agrees with text): each token's text is in the language of its kind, with the
//! languages read from /repo/tokenizer.txt at run time (regex crate), an Ident is never a
//! keyword or boolean, Error tokens are not texts some rule matches as a whole.
//! Oracle 3 (reference lexer): an independent maximal-munch lexer over the same rule file, with
//! the quote/escape/contents/comment sub-token shapes as lex_string/lex_char/lex_comment document
//! them; the token streams must be equal (empty tokens ignored).

use crate::common::*;
use crate::gens;
use proptest::prelude::*;
use rayon::prelude::*;
use regex::Regex;
use serde_json::json;

pub struct Rules {
    literals: Vec<(String, String)>,
    regexes: Vec<(String, Regex, Regex)>, // (name, anchored-prefix, full)
}

pub fn load_rules() -> Rules {
    let text = std::fs::read_to_string("/repo/tokenizer.txt").unwrap_or_else(|e| {
        eprintln!("cannot read /repo/tokenizer.txt: {e}");
        std::process::exit(2)
    });
    let mut literals = Vec::new();
    let mut regexes = Vec::new();
    for line in text.lines() {
        let line = line.trim();
        if line.is_empty() || line.starts_with("//") {
            continue;
        }
        let Some((name, rest)) = line.split_once('=') else { continue };
        let name = name.trim();
        if name.contains("|") || name.contains('>') {
            continue; // `_Foo |=> 'desc'` lines have no pattern
        }
        let rest = rest.trim();
        // strip the `|=> 'description'` suffix
        let pat = match rest.find("|=>") {
            Some(i) => rest[..i].trim(),
            None => rest,
        };
        if let Some(lit) = pat.strip_prefix('\'').and_then(|p| p.strip_suffix('\'')) {
            literals.push((name.to_string(), lit.to_string()));
        } else if let Some(re) = pat.strip_prefix('/').and_then(|p| p.strip_suffix('/')) {
            let pre = Regex::new(&format!("^(?:{re})")).unwrap_or_else(|e| {
                eprintln!("tokenizer.txt regex for {name} does not compile: {e}");
                std::process::exit(2)
            });
            let full = Regex::new(&format!("^(?:{re})$")).unwrap();
            regexes.push((name.to_string(), pre, full));
        }
    }
    if literals.len() < 40 || regexes.len() < 8 {
        eprintln!("tokenizer.txt parsed into too few rules ({} literals, {} regexes)", literals.len(), regexes.len());
        std::process::exit(2);
    }
    Rules { literals, regexes }
}

#[derive(Debug, Clone, PartialEq, Eq)]
pub struct Tok {
    kind: String,
    start: usize,
    end: usize,
}

impl Rules {
    /// longest match at `s`'s start: (rule name, len)
    fn longest(&self, s: &str) -> Option<(String, usize)> {
        let mut best: Option<(String, usize, u8)> = None; // prio: 2 literal, 1 Bool, 0 regex
        let mut consider = |name: &str, len: usize, prio: u8| {
            if len == 0 {
                return;
            }
            match &best {
                Some((_, l, p)) if *l > len || (*l == len && *p >= prio) => {}
                _ => best = Some((name.to_string(), len, prio)),
            }
        };
        for (name, lit) in &self.literals {
            if s.starts_with(lit.as_str()) {
                consider(name, lit.len(), 2);
            }
        }
        for (name, pre, _) in &self.regexes {
            if let Some(m) = pre.find(s) {
                consider(name, m.end(), if name == "Bool" { 1 } else { 0 });
            }
        }
        best.map(|(n, l, _)| (n, l))
    }

    fn sub_quoted(&self, text: &str, start: usize, quote: char, quote_kind: &str, out: &mut Vec<Tok>) {
        let mut pos = start;
        let mut chars = text.chars().peekable();
        let mut contents_start: Option<usize> = None;
        let flush = |contents_start: &mut Option<usize>, pos: usize, out: &mut Vec<Tok>| {
            if let Some(cs) = contents_start.take() {
                out.push(Tok { kind: "StringContents".into(), start: cs, end: pos });
            }
        };
        while let Some(c) = chars.next() {
            if c == quote {
                flush(&mut contents_start, pos, out);
                out.push(Tok { kind: quote_kind.into(), start: pos, end: pos + c.len_utf8() });
                pos += c.len_utf8();
            } else if c == '\\' {
                flush(&mut contents_start, pos, out);
                let mut len = 1;
                if let Some(n) = chars.next() {
                    len += n.len_utf8();
                }
                out.push(Tok { kind: "Escape".into(), start: pos, end: pos + len });
                pos += len;
            } else {
                if contents_start.is_none() {
                    contents_start = Some(pos);
                }
                pos += c.len_utf8();
            }
        }
        flush(&mut contents_start, pos, out);
    }

    pub fn reference_lex(&self, text: &str) -> Vec<Tok> {
        let mut out = Vec::new();
        let mut pos = 0;
        while pos < text.len() {
            let rest = &text[pos..];
            match self.longest(rest) {
                Some((name, len)) => {
                    match name.as_str() {
                        "__InternalString" => self.sub_quoted(&rest[..len], pos, '"', "DoubleQuote", &mut out),
                        "__InternalChar" => self.sub_quoted(&rest[..len], pos, '\'', "SingleQuote", &mut out),
                        "__InternalComment" => {
                            out.push(Tok { kind: "CommentLeader".into(), start: pos, end: pos + 2 });
                            if len > 2 {
                                out.push(Tok { kind: "CommentContents".into(), start: pos + 2, end: pos + len });
                            }
                        }
                        _ => out.push(Tok { kind: name.trim_start_matches('_').to_string(), start: pos, end: pos + len }),
                    }
                    pos += len;
                }
                None => {
                    // no rule matches here: one Error token per character
                    let c = rest.chars().next().unwrap().len_utf8();
                    out.push(Tok { kind: "Error".into(), start: pos, end: pos + c });
                    pos += c;
                }
            }
        }
        out
    }

    /// The language of each token kind as its *name* promises it, independent of tokenizer.txt
    /// (so that an edit of the rule file that changes what a kind means is noticed). Kinds not in
    /// this table (new tokens) are only checked against the rule file.
    fn named_language(kind: &str, text: &str) -> Option<bool> {
        use std::sync::OnceLock;
        static RES: OnceLock<Vec<(&'static str, Regex)>> = OnceLock::new();
        let res = RES.get_or_init(|| {
            [
                ("Whitespace", r"^[ \t\r\n]+$"),
                ("NonBreakingSpace", "^\u{a0}$"),
                ("Ident", r"^[A-Za-z_][A-Za-z0-9_]*$"),
                ("Float", r"^(\d[\d_]*)?\.\d[\d_]*([eE][-+]?\d[\d_]*)?$"),
                ("Int", r"^\d[\d_]*([eE]\d[\d_]*)?$"),
                ("Hex", r"^0x[0-9a-fA-F]+$"),
                ("Bin", r"^0b[01]+$"),
                ("Bool", r"^(true|false)$"),
            ]
            .into_iter()
            .map(|(k, r)| (k, Regex::new(r).unwrap()))
            .collect()
        });
        if let Some((_, re)) = res.iter().find(|(k, _)| *k == kind) {
            return Some(re.is_match(text));
        }
        const KEYWORDS: &[&str] = &[
            "As", "If", "Else", "While", "Loop", "Switch", "In", "Distinct", "Mut", "Extern", "Struct", "Enum", "Comptime", "Return", "Break",
            "Continue", "Defer", "Try", "Catch",
        ];
        if KEYWORDS.contains(&kind) {
            return Some(text == kind.to_lowercase());
        }
        const PUNCT: &[(&str, &str)] = &[
            ("Plus", "+"), ("Hyphen", "-"), ("Asterisk", "*"), ("Slash", "/"), ("Percent", "%"), ("Left", "<"), ("DoubleLeft", "<<"),
            ("LeftEquals", "<="), ("Right", ">"), ("DoubleRight", ">>"), ("RightEquals", ">="), ("Bang", "!"), ("BangEquals", "!="),
            ("And", "&"), ("DoubleAnd", "&&"), ("Pipe", "|"), ("DoublePipe", "||"), ("Equals", "="), ("DoubleEquals", "=="), ("Tilde", "~"),
            ("Comma", ","), ("Dot", "."), ("Ellipsis", "..."), ("Question", "?"), ("Arrow", "->"), ("FatArrow", "=>"), ("Caret", "^"),
            ("Backtick", "`"), ("LParen", "("), ("RParen", ")"), ("LBrack", "["), ("RBrack", "]"), ("LBrace", "{"), ("RBrace", "}"),
            ("Colon", ":"), ("Semicolon", ";"), ("Hash", "#"),
        ];
        PUNCT.iter().find(|(k, _)| *k == kind).map(|(_, t)| *t == text)
    }

    /// does any *named* language (see above) contain this whole text?
    fn some_named_language_contains(text: &str) -> Option<&'static str> {
        const ALL: &[&str] = &[
            "Whitespace", "NonBreakingSpace", "Ident", "Float", "Int", "Hex", "Bin", "Bool", "Plus", "Hyphen", "Asterisk", "Slash", "Percent", "Left",
            "DoubleLeft", "LeftEquals", "Right", "DoubleRight", "RightEquals", "Bang", "BangEquals", "And", "DoubleAnd", "Pipe", "DoublePipe",
            "Equals", "DoubleEquals", "Tilde", "Comma", "Dot", "Ellipsis", "Question", "Arrow", "FatArrow", "Caret", "Backtick", "LParen", "RParen",
            "LBrack", "RBrack", "LBrace", "RBrace", "Colon", "Semicolon", "Hash",
        ];
        ALL.iter().copied().find(|k| Self::named_language(k, text) == Some(true))
    }

    fn kind_accepts(&self, kind: &str, text: &str) -> Result<(), String> {
        if Self::named_language(kind, text) == Some(false) {
            return Err(format!("text is not what a {kind} token is (language fixed by the kind's name, independent of tokenizer.txt)"));
        }
        if kind == "Error" {
            if let Some(k) = Self::some_named_language_contains(text) {
                return Err(format!("Error token whose text is a valid {k}"));
            }
        }
        match kind {
            "SingleQuote" => (text == "'").then_some(()).ok_or_else(|| "SingleQuote token is not `'`".into()),
            "DoubleQuote" => (text == "\"").then_some(()).ok_or_else(|| "DoubleQuote token is not `\"`".into()),
            "Escape" => {
                let mut cs = text.chars();
                let ok = cs.next() == Some('\\') && cs.next().is_some() && cs.next().is_none();
                ok.then_some(()).ok_or_else(|| "Escape token is not a backslash plus one character".into())
            }
            "StringContents" => (!text.is_empty() && !text.contains(['\\', '\n']))
                .then_some(())
                .ok_or_else(|| "StringContents token is empty or contains a backslash or newline".into()),
            "CommentLeader" => (text == "//").then_some(()).ok_or_else(|| "CommentLeader token is not `//`".into()),
            "CommentContents" => (!text.contains('\n')).then_some(()).ok_or_else(|| "CommentContents spans a newline".into()),
            "Error" => {
                for (name, lit) in &self.literals {
                    if lit == text {
                        return Err(format!("Error token whose text is exactly the `{name}` token"));
                    }
                }
                for (name, _, full) in &self.regexes {
                    if full.is_match(text) {
                        return Err(format!("Error token whose text the `{name}` rule matches"));
                    }
                }
                Ok(())
            }
            _ => {
                if let Some((_, lit)) = self.literals.iter().find(|(n, _)| n == kind) {
                    return (lit == text).then_some(()).ok_or_else(|| format!("{kind} token text is not `{lit}`"));
                }
                if let Some((_, _, full)) = self.regexes.iter().find(|(n, _, _)| n == kind) {
                    if !full.is_match(text) {
                        return Err(format!("text is not in the language of {kind}"));
                    }
                    if kind == "Ident" {
                        if self.literals.iter().any(|(_, l)| l == text) {
                            return Err("Ident token whose text is a keyword".into());
                        }
                        if text == "true" || text == "false" {
                            return Err("Ident token whose text is a boolean".into());
                        }
                    }
                    return Ok(());
                }
                Err(format!("token kind {kind} has no rule in tokenizer.txt"))
            }
        }
    }
}

pub struct LexOutcome {
    pub tokens: usize,
    pub kinds: usize,
    pub empty_tokens: usize,
}

pub fn check_input(rules: &Rules, text: &str) -> Result<LexOutcome, (String, String)> {
    let toks = match catch(|| {
        let t = lexer::lex(text);
        let n = t.len();
        let mut v = Vec::with_capacity(n);
        for i in 0..n {
            let r = t.range(i);
            v.push((format!("{:?}", t.kind(i)), u32::from(r.start()) as usize, u32::from(r.end()) as usize));
        }
        v
    }) {
        Ok(v) => v,
        Err(k) => return Err((k, format!("lexing (or reading token ranges) panicked on {:?}", text))),
    };
    let show = |toks: &[(String, usize, usize)]| -> String {
        toks.iter().take(40).map(|(k, s, e)| format!("{k}@{s}..{e}")).collect::<Vec<_>>().join(" ")
    };
    // structure
    if toks.is_empty() {
        if !text.is_empty() {
            return Err(("C22:coverage:no-tokens".into(), format!("non-empty input {:?} produced no tokens", text)));
        }
        return Ok(LexOutcome { tokens: 0, kinds: 0, empty_tokens: 0 });
    }
    if toks[0].1 != 0 {
        return Err(("C22:coverage:start".into(), format!("first token of {:?} starts at {} : {}", text, toks[0].1, show(&toks))));
    }
    if toks.last().unwrap().2 != text.len() {
        return Err(("C22:coverage:end".into(), format!("last token of {:?} ends at {} (len {}): {}", text, toks.last().unwrap().2, text.len(), show(&toks))));
    }
    let mut empty = 0;
    for w in 0..toks.len() {
        let (k, s, e) = &toks[w];
        if s > e {
            return Err(("C22:coverage:order".into(), format!("token {k} of {:?} has start {s} > end {e}", text)));
        }
        if w + 1 < toks.len() && toks[w + 1].1 != *e {
            return Err(("C22:coverage:contiguity".into(), format!("gap/overlap after token {w} of {:?}: {}", text, show(&toks))));
        }
        if !text.is_char_boundary(*s) || !text.is_char_boundary(*e) {
            return Err(("C22:coverage:char-boundary".into(), format!("token {k}@{s}..{e} of {:?} splits a character", text)));
        }
        if s == e {
            empty += 1;
            if k != "CommentContents" {
                return Err((format!("C22:kind-text:{k}:empty"), format!("empty {k} token at {s} in {:?}", text)));
            }
        }
    }
    // kind vs text
    for (k, s, e) in &toks {
        if s == e {
            continue;
        }
        if let Err(why) = rules.kind_accepts(k, &text[*s..*e]) {
            return Err((format!("C22:kind-text:{k}"), format!("input {:?}: token {k}@{s}..{e} {:?}: {why}", text, &text[*s..*e])));
        }
    }
    // reference lexer
    let reference = rules.reference_lex(text);
    let got: Vec<Tok> = toks.iter().filter(|(_, s, e)| s != e).map(|(k, s, e)| Tok { kind: k.clone(), start: *s, end: *e }).collect();
    if got != reference {
        let i = got.iter().zip(reference.iter()).position(|(a, b)| a != b).unwrap_or(got.len().min(reference.len()));
        return Err((
            "C22:reference-mismatch".into(),
            format!(
                "input {:?}: token #{i} differs: lexer {:?}, maximal-munch reference {:?}",
                text,
                got.get(i),
                reference.get(i)
            ),
        ));
    }
    let mut kinds: Vec<&String> = toks.iter().map(|t| &t.0).collect();
    kinds.sort();
    kinds.dedup();
    Ok(LexOutcome { tokens: toks.len(), kinds: kinds.len(), empty_tokens: empty })
}

const ALPHA: [&str; 25] = [
    "a", "_", "1", "0", "x", "b", "e", ".", "\"", "'", "\\", "/", "\n", " ", "\u{a0}", "é", "😀", "<", ">", "=", "!", "&", "|", "-", ":",
];

const ATOMS: &[&str] = &[
    "as", "if", "else", "while", "loop", "switch", "in", "distinct", "mut", "extern", "struct", "enum", "comptime", "return", "break",
    "continue", "defer", "try", "catch", "true", "false", "a", "_", "9", "0", "0x", "0b", "1", "e", "E", "f", "+", "-", ".", "..", "\"", "'",
    "\\", "/", "//", "\n", " ", "\t", "\r", "<", ">", "=", "!", "&", "|", "~", ",", "?", "^", "`", "(", ")", "[", "]", "{", "}", ":", ";", "#", "*", "%",
    "\u{a0}", "é", "٣", "$", "@",
];

fn record(ctx: &Ctx, text: &str, res: Result<LexOutcome, (String, String)>, shrink: bool, rules: &Rules) {
    match res {
        Ok(o) => {
            if o.kinds >= 2 {
                ctx.nontrivial(fnv(text.as_bytes()));
            }
            if o.empty_tokens > 0 {
                ctx.class("inputs-with-empty-CommentContents", 1);
            }
        }
        Err((k, d)) => {
            if ctx.is_known(&k) {
                ctx.fail(&k, &d, &[]);
                return;
            }
            let (min, d) = if shrink {
                let min = gens::shrink_text(text, &|t| matches!(check_input(rules, t), Err((k2, _)) if k2 == k));
                let d2 = check_input(rules, &min).err().map(|e| e.1).unwrap_or(d);
                (min, d2)
            } else {
                (text.to_string(), d)
            };
            ctx.fail(&k, &d, min.as_bytes());
        }
    }
}

pub fn run(ctx: &Ctx) -> i32 {
    let rules = load_rules();
    let rule = "A: every string of length <= 4 over a 25-symbol alphabet with one representative per token-starting class (exhaustive); B: every sequence of <= 3 atoms over a 71-atom list (keywords, number prefixes, operators, quotes, comment, unicode) (exhaustive); C: proptest random Unicode strings and token soups; D: token/byte mutations of the repository corpus (<= 64 KiB). Non-trivial = input lexed into >= 2 different token kinds, distinct by content hash.";
    let replayer = |bytes: &[u8]| -> Option<String> {
        let t = String::from_utf8_lossy(bytes).to_string();
        check_input(&rules, &t).err().map(|e| e.0)
    };
    if let Some(p) = &ctx.args.replay {
        let bytes = std::fs::read(p).unwrap_or_else(|e| {
            eprintln!("cannot read replay: {e}");
            std::process::exit(2)
        });
        let t = String::from_utf8_lossy(&bytes).to_string();
        ctx.add_evals(1);
        if let Err((k, d)) = check_input(&rules, &t) {
            ctx.fail(&k, &d, &bytes);
        }
        return ctx.finish(rule, false, &[], &replayer);
    }

    // A: exhaustive strings
    let n = ALPHA.len() as u64;
    for len in 0..=4u32 {
        let count = n.pow(len);
        let results: Vec<(String, Result<LexOutcome, (String, String)>)> = (0..count)
            .into_par_iter()
            .map(|mut i| {
                let mut s = String::new();
                for _ in 0..len {
                    s.push_str(ALPHA[(i % n) as usize]);
                    i /= n;
                }
                let r = check_input(&rules, &s);
                (s, r)
            })
            .filter(|(_, r)| r.is_err() || r.as_ref().is_ok_and(|o| o.kinds >= 2 || o.empty_tokens > 0))
            .collect();
        ctx.add_evals(count);
        for (s, r) in results {
            record(ctx, &s, r, true, &rules);
        }
        ctx.class(&format!("A.len{len}"), count);
    }
    // B: exhaustive atom sequences
    let m = ATOMS.len() as u64;
    for len in 1..=3u32 {
        let count = m.pow(len);
        let results: Vec<(String, Result<LexOutcome, (String, String)>)> = (0..count)
            .into_par_iter()
            .map(|mut i| {
                let mut s = String::new();
                for _ in 0..len {
                    s.push_str(ATOMS[(i % m) as usize]);
                    i /= m;
                }
                let r = check_input(&rules, &s);
                (s, r)
            })
            .filter(|(_, r)| r.is_err() || r.as_ref().is_ok_and(|o| o.kinds >= 2 || o.empty_tokens > 0))
            .collect();
        ctx.add_evals(count);
        for (s, r) in results {
            record(ctx, &s, r, true, &rules);
        }
        ctx.class(&format!("B.atoms{len}"), count);
    }
    ctx.sample(json!({"input": "if iffy 0x1F 1.5e3 \"a\\n\" // c", "tokens": rules.reference_lex("if iffy 0x1F 1.5e3 \"a\\n\" // c").iter().map(|t| format!("{}@{}..{}", t.kind, t.start, t.end)).collect::<Vec<_>>()}));

    // C: random
    let cases = if ctx.thorough() { 3_000_000 } else { 150_000 };
    let strat = prop_oneof![gens::unicode_strategy(40), gens::soup_strategy(30)];
    search(ctx, "c22:random", cases, &strat, |s| s.as_bytes().to_vec(), |s| {
        ctx.add_evals(1);
        match check_input(&rules, s) {
            Ok(o) => {
                if o.kinds >= 2 {
                    ctx.nontrivial(fnv(s.as_bytes()));
                    if ctx.sample_count() < 6 {
                        ctx.sample(json!({"input": s.chars().take(100).collect::<String>(), "tokens": o.tokens, "kinds": o.kinds}));
                    }
                }
                Ok(())
            }
            Err(e) => Err(e),
        }
    });

    // D: corpus and corpus mutations
    let corpus = std::sync::Arc::new(gens::corpus());
    ctx.class("D.corpus-files", corpus.len() as u64);
    for t in corpus.iter() {
        ctx.add_evals(1);
        record(ctx, t, check_input(&rules, t), true, &rules);
    }
    let n_mut = if ctx.thorough() { 200_000 } else { 15_000 };
    let muts = draw(ctx.args.seed, "c22:mut", &gens::mutated_corpus_strategy(corpus.clone()), n_mut);
    let results: Vec<(String, Result<LexOutcome, (String, String)>)> = muts
        .into_par_iter()
        .map(|s| {
            let r = check_input(&rules, &s);
            (s, r)
        })
        .collect();
    ctx.add_evals(results.len() as u64);
    ctx.class("D.mutations", results.len() as u64);
    for (s, r) in results {
        record(ctx, &s, r, true, &rules);
    }

    ctx.finish(
        rule,
        true,
        &[
            "token languages are read from /repo/tokenizer.txt at run time and interpreted with the regex crate (same syntax subset as logos uses here)",
            "maximal munch with literal > Bool > other-regex tie-breaking is the reference lexing rule",
            "an empty CommentContents token after a bare `//` is tolerated (not excluded by the property); any other empty token is a violation",
        ],
        &replayer,
    )
}
