//! C24 — expressions parse by the documented precedence and associativity.
//!
//! Generated expression trees are printed with the minimal parentheses the documented table
//! implies (plus random redundant ones), parsed as `x :: <expr>;` (and as a REPL line), read back
//! through the `ast` crate and compared with the generated tree (parentheses stripped).
//! Table: `||` < `&&` < comparisons < `+ - | ~` < `* / % & << >>`, left-associative; prefix
//! (- + ! ~ ^ ^mut) and postfix (call, index, field, .try, cast, deref) bind tighter.

use crate::common::*;
use ast::AstNode;
use ast::AstToken;
use proptest::prelude::*;
use serde_json::json;

#[derive(Debug, Clone, PartialEq, Eq, Hash)]
pub enum T {
    Id(String),
    Int(String),
    Bin(&'static str, Box<T>, Box<T>),
    Pre(&'static str, Box<T>), // - + ! ~
    Ref(bool, Box<T>),         // ^e, ^mut e
    Call(Box<T>, Vec<T>),
    Index(Box<T>, Box<T>),
    Field(Box<T>, String),
    Try(Box<T>),
    Cast(Box<T>, Box<T>), // ty.(e)
    Deref(Box<T>),
    Paren(Box<T>),
}

pub const BIN_OPS: &[(&str, u8)] = &[
    ("||", 1),
    ("&&", 2),
    ("<", 3),
    ("<=", 3),
    (">", 3),
    (">=", 3),
    ("==", 3),
    ("!=", 3),
    ("+", 4),
    ("-", 4),
    ("|", 4),
    ("~", 4),
    ("*", 5),
    ("/", 5),
    ("%", 5),
    ("&", 5),
    ("<<", 5),
    (">>", 5),
];

fn level(op: &str) -> u8 {
    BIN_OPS.iter().find(|(o, _)| *o == op).map(|x| x.1).unwrap()
}

fn strip(t: &T) -> T {
    match t {
        T::Paren(e) => strip(e),
        T::Id(_) | T::Int(_) => t.clone(),
        T::Bin(o, l, r) => T::Bin(o, Box::new(strip(l)), Box::new(strip(r))),
        T::Pre(o, e) => T::Pre(o, Box::new(strip(e))),
        T::Ref(m, e) => T::Ref(*m, Box::new(strip(e))),
        T::Call(f, a) => T::Call(Box::new(strip(f)), a.iter().map(strip).collect()),
        T::Index(a, i) => T::Index(Box::new(strip(a)), Box::new(strip(i))),
        T::Field(e, n) => T::Field(Box::new(strip(e)), n.clone()),
        T::Try(e) => T::Try(Box::new(strip(e))),
        T::Cast(t, e) => T::Cast(Box::new(strip(t)), Box::new(strip(e))),
        T::Deref(e) => T::Deref(Box::new(strip(e))),
    }
}

#[derive(Clone, Copy, PartialEq)]
enum Kind {
    Primary,
    Postfix { has_deref: bool, has_cast: bool },
    Prefix,
    Binary(u8),
}

fn kind(t: &T) -> Kind {
    match t {
        T::Id(_) | T::Int(_) | T::Paren(_) => Kind::Primary,
        T::Bin(o, _, _) => Kind::Binary(level(o)),
        T::Pre(..) | T::Ref(..) => Kind::Prefix,
        T::Call(b, _) | T::Index(b, _) | T::Field(b, _) | T::Try(b) => match kind(b) {
            Kind::Postfix { has_deref, has_cast } => Kind::Postfix { has_deref, has_cast },
            _ => Kind::Postfix { has_deref: false, has_cast: false },
        },
        T::Cast(b, _) => match kind(b) {
            Kind::Postfix { has_deref, .. } => Kind::Postfix { has_deref, has_cast: true },
            _ => Kind::Postfix { has_deref: false, has_cast: true },
        },
        T::Deref(b) => match kind(b) {
            Kind::Postfix { has_cast, .. } => Kind::Postfix { has_deref: true, has_cast },
            _ => Kind::Postfix { has_deref: true, has_cast: false },
        },
    }
}

fn paren(s: String) -> String {
    format!("({s})")
}

/// base of a postfix operator: primaries and postfix chains need no parentheses
fn print_base(t: &T, sp: &str) -> String {
    match kind(t) {
        Kind::Primary | Kind::Postfix { .. } => print(t, sp),
        _ => paren(print(t, sp)),
    }
}

/// operand of a prefix operator (- + ! ~): postfix chains without a deref bind tighter; a deref
/// in the chain would apply to the whole prefix expression (source comment on
/// parse_expr_for_prefix), so such operands are parenthesised.
fn print_prefix_operand(t: &T, sp: &str, is_ref: bool) -> String {
    match kind(t) {
        Kind::Primary | Kind::Prefix => print(t, sp),
        Kind::Postfix { has_deref, has_cast } => {
            if has_deref || (is_ref && has_cast) {
                paren(print(t, sp))
            } else {
                print(t, sp)
            }
        }
        Kind::Binary(_) => paren(print(t, sp)),
    }
}

pub fn print(t: &T, sp: &str) -> String {
    match t {
        T::Id(n) | T::Int(n) => n.clone(),
        T::Paren(e) => paren(print(e, sp)),
        T::Bin(o, l, r) => {
            let lv = level(o);
            let ls = match kind(l) {
                Kind::Binary(x) if x < lv => paren(print(l, sp)),
                _ => print(l, sp),
            };
            let rs = match kind(r) {
                Kind::Binary(x) if x <= lv => paren(print(r, sp)),
                _ => print(r, sp),
            };
            format!("{ls} {o} {rs}")
        }
        T::Pre(o, e) => format!("{o}{sp}{}", print_prefix_operand(e, sp, false)),
        T::Ref(m, e) => format!("^{}{}", if *m { "mut " } else { sp }, print_prefix_operand(e, sp, true)),
        T::Call(f, args) => format!("{}({})", print_base(f, sp), args.iter().map(|a| print(a, sp)).collect::<Vec<_>>().join(", ")),
        T::Index(a, i) => format!("{}[{}]", print_base(a, sp), print(i, sp)),
        T::Field(e, n) => format!("{}.{n}", print_base(e, sp)),
        T::Try(e) => format!("{}.try", print_base(e, sp)),
        T::Cast(ty, e) => format!("{}.({})", print_base(ty, sp), print(e, sp)),
        T::Deref(e) => format!("{}^", print_base(e, sp)),
    }
}

// ---------------------------------------------------------------------------------------------
// reading the parse back through the ast crate

fn read(e: ast::Expr, tree: &syntax::SyntaxTree) -> Result<T, String> {
    use ast::Expr as E;
    let need = |o: Option<ast::Expr>, what: &str| o.ok_or_else(|| format!("missing {what}"));
    Ok(match e {
        E::VarRef(v) => T::Id(v.name(tree).ok_or("VarRef without name")?.text(tree).to_string()),
        E::IntLiteral(i) => T::Int(i.text(tree).trim().to_string()),
        E::Paren(p) => T::Paren(Box::new(read(need(p.expr(tree), "paren body")?, tree)?)),
        E::Binary(b) => {
            let op = b.op(tree).ok_or("binary without op")?.text(tree).to_string();
            let op = BIN_OPS.iter().find(|(o, _)| *o == op).ok_or(format!("unknown binary op {op}"))?.0;
            T::Bin(op, Box::new(read(need(b.lhs(tree), "lhs")?, tree)?), Box::new(read(need(b.rhs(tree), "rhs")?, tree)?))
        }
        E::Unary(u) => {
            let op = u.op(tree).ok_or("unary without op")?.text(tree).to_string();
            let op = ["-", "+", "!", "~"].into_iter().find(|o| *o == op).ok_or(format!("unknown unary op {op}"))?;
            T::Pre(op, Box::new(read(need(u.expr(tree), "unary operand")?, tree)?))
        }
        E::Ref(r) => T::Ref(r.mutable(tree).is_some(), Box::new(read(need(r.expr(tree), "ref operand")?, tree)?)),
        E::Deref(d) => T::Deref(Box::new(read(need(d.pointer(tree), "deref operand")?, tree)?)),
        E::Call(c) => {
            let f = read(need(c.callee(tree), "callee")?, tree)?;
            let mut args = Vec::new();
            if let Some(al) = c.arg_list(tree) {
                for a in al.args(tree) {
                    args.push(read(need(a.value(tree), "arg value")?, tree)?);
                }
            }
            T::Call(Box::new(f), args)
        }
        E::IndexExpr(ix) => {
            let a = ix.array(tree).and_then(|s| s.value(tree));
            let i = ix.index(tree).and_then(|s| s.value(tree));
            T::Index(Box::new(read(need(a, "indexed array")?, tree)?), Box::new(read(need(i, "index")?, tree)?))
        }
        E::Path(p) => T::Field(
            Box::new(read(need(p.previous_part(tree), "path base")?, tree)?),
            p.field_name(tree).ok_or("path without field")?.text(tree).to_string(),
        ),
        E::Propagate(p) => T::Try(Box::new(read(need(p.expr(tree), "try operand")?, tree)?)),
        E::Cast(c) => {
            let ty = c.ty(tree).and_then(|t| t.expr(tree));
            T::Cast(Box::new(read(need(ty, "cast type")?, tree)?), Box::new(read(need(c.expr(tree), "cast value")?, tree)?))
        }
        other => return Err(format!("unexpected node {:?}", other)),
    })
}

/// the expression as the condition of an `if` (a `{` follows it, which is where the parser's
/// lambda-vs-parenthesis lookahead matters)
fn parse_condition(text: &str) -> Result<T, String> {
    let src = format!("f :: () {{ if {text} {{ }} }}");
    let tokens = lexer::lex(&src);
    let parse = parser::parse_source_file(&tokens, &src);
    if !parse.errors().is_empty() {
        return Err(format!("syntax errors in {:?}: {:?}", src, parse.errors()));
    }
    let tree = parse.syntax_tree();
    for n in tree.root().descendant_nodes(tree) {
        if let Some(i) = ast::IfExpr::cast(n, tree) {
            return read(i.condition(tree).ok_or("if without condition")?, tree);
        }
    }
    Err("no if expression found".into())
}

fn parse_expr(text: &str, repl: bool) -> Result<T, String> {
    let tokens = lexer::lex(text);
    let parse = if repl { parser::parse_repl_line(&tokens, text) } else { parser::parse_source_file(&tokens, text) };
    if !parse.errors().is_empty() {
        return Err(format!("syntax errors: {:?}", parse.errors()));
    }
    let tree = parse.syntax_tree();
    let root = ast::Root::cast(tree.root(), tree).ok_or("no root")?;
    if repl {
        let stmt = root.stmts(tree).next().ok_or("no statement")?;
        match stmt {
            ast::Stmt::Expr(e) => read(e.expr(tree).ok_or("empty expr stmt")?, tree),
            _ => Err("repl line did not parse as an expression statement".into()),
        }
    } else {
        let def = root.defs(tree).next().ok_or("no definition")?;
        let value = match def {
            ast::Define::Binding(b) => b.value(tree),
            ast::Define::Variable(v) => v.value(tree),
        };
        read(value.ok_or("definition without value")?, tree)
    }
}

fn class_of(t: &T) -> (usize, usize, bool) {
    // (#binary ops, #distinct levels, prefix+postfix on one operand)
    fn walk(t: &T, levels: &mut std::collections::BTreeSet<u8>, n: &mut usize, pp: &mut bool) {
        match t {
            T::Id(_) | T::Int(_) => {}
            T::Paren(e) | T::Try(e) | T::Deref(e) | T::Field(e, _) => walk(e, levels, n, pp),
            T::Bin(o, l, r) => {
                *n += 1;
                levels.insert(level(o));
                walk(l, levels, n, pp);
                walk(r, levels, n, pp);
            }
            T::Pre(_, e) | T::Ref(_, e) => {
                if matches!(kind(&strip(e)), Kind::Postfix { .. }) {
                    *pp = true;
                }
                walk(e, levels, n, pp)
            }
            T::Call(f, a) => {
                if matches!(kind(&strip(f)), Kind::Prefix) {
                    *pp = true;
                }
                walk(f, levels, n, pp);
                for x in a {
                    walk(x, levels, n, pp);
                }
            }
            T::Index(a, i) | T::Cast(a, i) => {
                if matches!(kind(&strip(a)), Kind::Prefix) {
                    *pp = true;
                }
                walk(a, levels, n, pp);
                walk(i, levels, n, pp);
            }
        }
    }
    let mut levels = Default::default();
    let mut n = 0;
    let mut pp = false;
    walk(t, &mut levels, &mut n, &mut pp);
    (n, levels.len(), pp)
}

pub fn check_tree(ctx: &Ctx, t: &T, sp: &str) -> Result<(), (String, String)> {
    let text = print(t, sp);
    let want = strip(t);
    for repl in [false, true] {
        let src = if repl { text.clone() } else { format!("x :: {text};") };
        let got = match catch(|| parse_expr(&src, repl)) {
            Err(k) => return Err((k, format!("parser panicked on {:?}", src))),
            Ok(Err(why)) => {
                return Err((
                    "C24:does-not-parse".into(),
                    format!("generated expression {:?} (tree {:?}) did not parse cleanly: {why}", src, want),
                ));
            }
            Ok(Ok(g)) => g,
        };
        let got_s = strip(&got);
        if got_s != want {
            let key = shape_key(&want, &got_s);
            return Err((key, format!("source {:?}\n generated tree: {:?}\n parsed tree:    {:?}", src, want, got_s)));
        }
        // printer round trip
        let again = print(&got, sp);
        if strip(&parse_expr(&if repl { again.clone() } else { format!("x :: {again};") }, repl).map_err(|e| ("C24:roundtrip-parse".to_string(), e))?) != want {
            return Err(("C24:roundtrip".into(), format!("print(parse({:?})) = {:?} parses to a different tree", src, again)));
        }
    }
    // as an `if` condition, bare and inside one and two pairs of redundant parentheses
    if !matches!(kind(&want), Kind::Primary) || matches!(t, T::Paren(_)) {
        for wrapped in [text.clone(), format!("({text})"), format!("(({text}))")] {
            let got = match catch(|| parse_condition(&wrapped)) {
                Err(k) => return Err((k, format!("parser panicked on `if {wrapped} {{ }}`"))),
                Ok(Err(why)) => return Err(("C24:does-not-parse:if-condition".into(), format!("`if {wrapped} {{ }}` (tree {:?}) did not parse cleanly: {why}", want))),
                Ok(Ok(g)) => g,
            };
            if strip(&got) != want {
                return Err((format!("{}:if-condition", shape_key(&want, &strip(&got))), format!("`if {wrapped} {{ }}`\n generated tree: {:?}\n parsed tree:    {:?}", want, strip(&got))));
            }
        }
    }
    ctx.add_evals(1);
    let (n, levels, pp) = class_of(&want);
    if (n >= 2 && levels >= 2) || pp {
        ctx.nontrivial(fnv(text.as_bytes()));
    }
    Ok(())
}

fn shape_key(want: &T, got: &T) -> String {
    fn head(t: &T) -> String {
        match t {
            T::Id(_) => "id".into(),
            T::Int(_) => "int".into(),
            T::Bin(o, ..) => format!("bin{}", level(o)),
            T::Pre(..) => "prefix".into(),
            T::Ref(..) => "ref".into(),
            T::Call(..) => "call".into(),
            T::Index(..) => "index".into(),
            T::Field(..) => "field".into(),
            T::Try(..) => "try".into(),
            T::Cast(..) => "cast".into(),
            T::Deref(..) => "deref".into(),
            T::Paren(..) => "paren".into(),
        }
    }
    format!("C24:tree-mismatch:want-{}:got-{}", head(want), head(got))
}

// ---------------------------------------------------------------------------------------------
// generators

fn atom() -> impl Strategy<Value = T> {
    prop_oneof![
        4 => prop::sample::select(vec!["a", "b", "c", "d", "foo", "i32"]).prop_map(|s| T::Id(s.to_string())),
        1 => prop::sample::select(vec!["1", "2", "42", "0x1F"]).prop_map(|s| T::Int(s.to_string())),
    ]
}

pub fn tree_strategy() -> impl Strategy<Value = T> {
    atom().prop_recursive(5, 40, 3, |inner| {
        prop_oneof![
            6 => (prop::sample::select(BIN_OPS.to_vec()), inner.clone(), inner.clone()).prop_map(|((o, _), l, r)| T::Bin(o, Box::new(l), Box::new(r))),
            2 => (prop::sample::select(vec!["-", "+", "!", "~"]), inner.clone()).prop_map(|(o, e)| T::Pre(o, Box::new(e))),
            1 => (any::<bool>(), inner.clone()).prop_map(|(m, e)| T::Ref(m, Box::new(e))),
            1 => (inner.clone(), prop::collection::vec(inner.clone(), 0..3)).prop_map(|(f, a)| T::Call(Box::new(f), a)),
            1 => (inner.clone(), inner.clone()).prop_map(|(a, i)| T::Index(Box::new(a), Box::new(i))),
            1 => (inner.clone(), prop::sample::select(vec!["x", "y", "len"])).prop_map(|(e, n)| T::Field(Box::new(e), n.to_string())),
            1 => inner.clone().prop_map(|e| T::Try(Box::new(e))),
            1 => (inner.clone(), inner.clone()).prop_map(|(t, e)| T::Cast(Box::new(t), Box::new(e))),
            1 => inner.clone().prop_map(|e| T::Deref(Box::new(e))),
            1 => inner.clone().prop_map(|e| T::Paren(Box::new(e))),
        ]
    })
}

fn id(s: &str) -> T {
    T::Id(s.to_string())
}

/// All binary trees with `n` operators over the given operator list, leaves a, b, c, d in order.
fn all_binary_trees(n: usize, ops: &[&'static str]) -> Vec<T> {
    fn shapes(n: usize, leaf: &mut usize, ops: &[&'static str]) -> Vec<(T, usize)> {
        // returns (tree, next leaf index) — built recursively over split points
        let names = ["a", "b", "c", "d", "e", "f"];
        if n == 0 {
            let t = id(names[*leaf % names.len()]);
            return vec![(t, *leaf + 1)];
        }
        let mut out = Vec::new();
        for left_n in 0..n {
            let right_n = n - 1 - left_n;
            let mut l0 = *leaf;
            for (lt, after_l) in shapes(left_n, &mut l0, ops) {
                let mut r0 = after_l;
                for (rt, after_r) in shapes(right_n, &mut r0, ops) {
                    for o in ops {
                        out.push((T::Bin(o, Box::new(lt.clone()), Box::new(rt.clone())), after_r));
                    }
                }
            }
        }
        out
    }
    let mut leaf = 0;
    shapes(n, &mut leaf, ops).into_iter().map(|x| x.0).collect()
}

pub fn sexp(t: &T) -> String {
    match t {
        T::Id(n) => format!("(id {n})"),
        T::Int(n) => format!("(int {n})"),
        T::Bin(o, l, r) => format!("(bin {o} {} {})", sexp(l), sexp(r)),
        T::Pre(o, e) => format!("(pre {o} {})", sexp(e)),
        T::Ref(m, e) => format!("({} {})", if *m { "refmut" } else { "ref" }, sexp(e)),
        T::Call(f, a) => format!("(call {}{})", sexp(f), a.iter().map(|x| format!(" {}", sexp(x))).collect::<String>()),
        T::Index(a, i) => format!("(index {} {})", sexp(a), sexp(i)),
        T::Field(e, n) => format!("(field {n} {})", sexp(e)),
        T::Try(e) => format!("(try {})", sexp(e)),
        T::Cast(t, e) => format!("(cast {} {})", sexp(t), sexp(e)),
        T::Deref(e) => format!("(deref {})", sexp(e)),
        T::Paren(e) => format!("(paren {})", sexp(e)),
    }
}

pub fn unsexp(s: &str) -> Option<T> {
    fn toks(s: &str) -> Vec<String> {
        s.replace('(', " ( ").replace(')', " ) ").split_whitespace().map(String::from).collect()
    }
    fn parse(t: &[String], i: &mut usize) -> Option<T> {
        if t.get(*i)? != "(" {
            return None;
        }
        *i += 1;
        let head = t.get(*i)?.clone();
        *i += 1;
        let r = match head.as_str() {
            "id" => { let n = t.get(*i)?.clone(); *i += 1; T::Id(n) }
            "int" => { let n = t.get(*i)?.clone(); *i += 1; T::Int(n) }
            "bin" => {
                let o = t.get(*i)?.clone(); *i += 1;
                let o = BIN_OPS.iter().find(|(x, _)| *x == o)?.0;
                let l = parse(t, i)?; let r = parse(t, i)?;
                T::Bin(o, Box::new(l), Box::new(r))
            }
            "pre" => {
                let o = t.get(*i)?.clone(); *i += 1;
                let o = ["-", "+", "!", "~"].into_iter().find(|x| *x == o)?;
                T::Pre(o, Box::new(parse(t, i)?))
            }
            "ref" => T::Ref(false, Box::new(parse(t, i)?)),
            "refmut" => T::Ref(true, Box::new(parse(t, i)?)),
            "call" => {
                let f = parse(t, i)?;
                let mut a = Vec::new();
                while t.get(*i)? == "(" { a.push(parse(t, i)?); }
                T::Call(Box::new(f), a)
            }
            "index" => { let a = parse(t, i)?; let x = parse(t, i)?; T::Index(Box::new(a), Box::new(x)) }
            "field" => { let n = t.get(*i)?.clone(); *i += 1; T::Field(Box::new(parse(t, i)?), n) }
            "try" => T::Try(Box::new(parse(t, i)?)),
            "cast" => { let a = parse(t, i)?; let x = parse(t, i)?; T::Cast(Box::new(a), Box::new(x)) }
            "deref" => T::Deref(Box::new(parse(t, i)?)),
            "paren" => T::Paren(Box::new(parse(t, i)?)),
            _ => return None,
        };
        if t.get(*i)? != ")" { return None; }
        *i += 1;
        Some(r)
    }
    let t = toks(s);
    let mut i = 0;
    parse(&t, &mut i)
}

fn enc(t: &T) -> Vec<u8> {
    format!("{}\n// printed: {}\n", sexp(t), print(t, "")).into_bytes()
}

/// Source texts whose tree the source comments in grammar/expr.rs document explicitly.
fn documented_cases() -> Vec<(&'static str, T)> {
    let b = |t: T| Box::new(t);
    vec![
        ("^a^", T::Deref(b(T::Ref(false, b(id("a")))))),
        ("^mut a^", T::Deref(b(T::Ref(true, b(id("a")))))),
        ("^T.(v)", T::Cast(b(T::Ref(false, b(id("T")))), b(id("v")))),
        ("~T.(v)", T::Pre("~", b(T::Cast(b(id("T")), b(id("v")))))),
        ("-T.(v)", T::Pre("-", b(T::Cast(b(id("T")), b(id("v")))))),
        // parse_expr_for_prefix parses every prefix operand with `disallow_derefs = true`
        ("-a^", T::Deref(b(T::Pre("-", b(id("a")))))),
        ("!a.x^", T::Deref(b(T::Pre("!", b(T::Field(b(id("a")), "x".into())))))),
        ("~f(p)^.y", T::Field(b(T::Deref(b(T::Pre("~", b(T::Call(b(id("f")), vec![id("p")])))))), "y".into())),
    ]
}

pub fn run(ctx: &Ctx) -> i32 {
    let rule = "A (exhaustive): every binary-operator tree with <= 3 operators over one representative per precedence level, every 2-operator tree over all 18 operators (all operator pairs, both shapes), every prefix x postfix nesting over {- + ! ~ ^ ^mut} x {call index field .try cast deref}, alone and as operands of a binary operator; B: proptest trees of depth <= 5 over all operators with random redundant parentheses. Each tree is printed with minimal parentheses, parsed as `x :: e;` and as a REPL line, read back through the ast crate. Non-trivial = >= 2 binary operators of different levels, or a prefix and a postfix operator on one operand; distinct by printed text.";
    let replayer = |bytes: &[u8]| -> Option<String> {
        let text = String::from_utf8_lossy(bytes).to_string();
        let t = unsexp(text.lines().next().unwrap_or(""))?;
        for sp in ["", " "] {
            if let Err((k, _)) = check_tree(ctx, &t, sp) {
                return Some(k);
            }
        }
        None
    };
    if let Some(p) = &ctx.args.replay {
        let bytes = std::fs::read(p).unwrap_or_else(|e| {
            eprintln!("cannot read replay: {e}");
            std::process::exit(2)
        });
        let text = String::from_utf8_lossy(&bytes).to_string();
        let Some(t) = unsexp(text.lines().next().unwrap_or("")) else {
            eprintln!("replay file is not a C24 tree");
            return 2;
        };
        for sp in ["", " "] {
            if let Err((k, d)) = check_tree(ctx, &t, sp) {
                ctx.fail(&k, &d, &bytes);
            }
        }
        return ctx.finish(rule, false, &[], &replayer);
    }

    // A: exhaustive
    let reps = ["||", "&&", "==", "+", "*"];
    let mut trees = Vec::new();
    for n in 1..=3 {
        trees.extend(all_binary_trees(n, &reps));
    }
    let all_ops: Vec<&'static str> = BIN_OPS.iter().map(|x| x.0).collect();
    trees.extend(all_binary_trees(2, &all_ops));
    if ctx.thorough() {
        let reps9 = ["||", "&&", "<", "!=", "-", "~", "|", "&", ">>"];
        trees.extend(all_binary_trees(3, &reps9));
    }
    // prefix x postfix
    let prefixes: Vec<Box<dyn Fn(T) -> T>> = vec![
        Box::new(|e| T::Pre("-", Box::new(e))),
        Box::new(|e| T::Pre("+", Box::new(e))),
        Box::new(|e| T::Pre("!", Box::new(e))),
        Box::new(|e| T::Pre("~", Box::new(e))),
        Box::new(|e| T::Ref(false, Box::new(e))),
        Box::new(|e| T::Ref(true, Box::new(e))),
    ];
    let postfixes: Vec<Box<dyn Fn(T) -> T>> = vec![
        Box::new(|e| T::Call(Box::new(e), vec![id("p"), id("q")])),
        Box::new(|e| T::Index(Box::new(e), Box::new(id("i")))),
        Box::new(|e| T::Field(Box::new(e), "x".into())),
        Box::new(|e| T::Try(Box::new(e))),
        Box::new(|e| T::Cast(Box::new(e), Box::new(id("v")))),
        Box::new(|e| T::Deref(Box::new(e))),
    ];
    for p in &prefixes {
        for q in &postfixes {
            let a = p(q(id("a")));
            let b = q(p(id("a")));
            for t in [a, b] {
                trees.push(t.clone());
                for (o, _) in BIN_OPS {
                    trees.push(T::Bin(o, Box::new(t.clone()), Box::new(id("z"))));
                    trees.push(T::Bin(o, Box::new(id("z")), Box::new(t.clone())));
                }
                for q2 in &postfixes {
                    trees.push(q2(t.clone()));
                }
                for p2 in &prefixes {
                    trees.push(p2(t.clone()));
                }
            }
        }
    }
    for (src, want) in documented_cases() {
        ctx.add_evals(1);
        match catch(|| parse_expr(&format!("x :: {src};"), false)) {
            Err(k) => { ctx.fail(&k, &format!("parser panicked on {src:?}"), src.as_bytes()); }
            Ok(Err(why)) => { ctx.fail("C24:does-not-parse", &format!("documented form {src:?}: {why}"), &enc(&want)); }
            Ok(Ok(got)) => {
                if strip(&got) != want {
                    ctx.fail(&shape_key(&want, &strip(&got)), &format!("documented form {src:?} parsed as {:?}, source comments say {:?}", strip(&got), want), &enc(&want));
                }
            }
        }
    }
    ctx.class("A.exhaustive-trees", trees.len() as u64);
    for t in &trees {
        for sp in ["", " "] {
            if let Err((k, d)) = check_tree(ctx, t, sp) {
                ctx.fail(&k, &d, &enc(t));
            }
        }
    }
    ctx.sample(json!({"tree": format!("{:?}", trees[700]), "printed": print(&trees[700], "")}));

    // B: random
    let cases = if ctx.thorough() { 3_000_000 } else { 150_000 };
    let strat = (tree_strategy(), any::<bool>());
    search(ctx, "c24", cases, &strat, |(t, _)| enc(t), |(t, sp)| {
        let r = check_tree(ctx, t, if *sp { " " } else { "" });
        if r.is_ok() && ctx.sample_count() < 8 {
            let (n, l, pp) = class_of(&strip(t));
            if n >= 3 && l >= 2 && pp {
                ctx.sample(json!({"printed": print(t, ""), "tree": format!("{:?}", strip(t))}));
            }
        }
        r
    });

    ctx.finish(
        rule,
        true,
        &[
            "prefix vs postfix: call/index/field/.try/cast bind tighter than - + ! ~; a deref applies to the whole prefix expression (source comment on parse_expr_for_prefix: `^foo^` is `(^foo)^`), and `^T.(x)` is `(^T).(x)`; operands whose relation the table and comments leave open are parenthesised by the printer",
            "operands are identifiers and integer literals",
        ],
        &replayer,
    )
}
