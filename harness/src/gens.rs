//! Input generators shared by the front-end checks (C22, C23, C25, C06-in-process):
//! token alphabet, token soups, corpus loading, corpus mutation, and a text shrinker.

use std::path::Path;

use proptest::prelude::*;

use crate::common::{catch, draw};

/// One or more spellings for every token kind of tokenizer.txt (plus shapes that exercise the
/// sub-lexers and error paths).
pub const TOKENS: &[&str] = &[
    "a", "b", "x", "foo", "i32", "u8", "T", "_", "main", "import", "mod", "rawptr", "nil", "void", "type", "str",
    "0", "1", "42", "1_000", "1e3", "0x1F", "0b101", "1.5", ".5", "1.", "2.5e-3", "true", "false",
    "\"s\"", "\"a\\nb\"", "\"\"", "\"unterminated", "'c'", "'\\n'", "''", "'ab'", "'",
    "as", "if", "else", "while", "loop", "switch", "in", "distinct", "mut", "extern", "struct", "enum",
    "comptime", "return", "break", "continue", "defer", "try", "catch",
    "+", "-", "*", "/", "%", "<", "<<", "<=", ">", ">>", ">=", "!", "!=", "&", "&&", "|", "||", "=", "==",
    "~", ",", ".", "...", "?", "->", "=>", "^", "`", "(", ")", "[", "]", "{", "}", ":", ";", "#",
    "::", ":=", "+=", ".(", ".{", ".[", ".try", "#import", "#mod", "#unwrap", "#is_variant",
    " ", "\n", "\t", "\r\n", "// c\n", "//\n", "\u{a0}", "é", "$", "\\", "@", "😀",
];

/// The reduced 14-token set of C23's exhaustive enumeration.
pub const REDUCED14: &[&str] = &["a", "1", "(", ")", "{", "}", "[", "]", ".", ",", ":", "=", ";", "^"];
/// The 6 bracket/`.`/`,` tokens that drive the list loops.
pub const REDUCED6: &[&str] = &["(", ")", "{", "}", ".", ","];
/// Bracket / list-loop tokens with `[`: 8 tokens.
pub const REDUCED8: &[&str] = &["(", ")", "{", "}", "[", "]", ".", ","];

pub fn join_tokens(idxs: &[usize], alphabet: &[&str], spaced: bool) -> String {
    let mut s = String::new();
    for (k, i) in idxs.iter().enumerate() {
        if k > 0 && spaced {
            s.push(' ');
        }
        s.push_str(alphabet[*i % alphabet.len()]);
    }
    s
}

/// Random token soup: sequences over TOKENS with weighted bracket structure.
pub fn soup_strategy(max_tokens: usize) -> impl Strategy<Value = String> {
    (
        proptest::collection::vec((0usize..TOKENS.len(), 0u8..4), 0..max_tokens),
        any::<bool>(),
    )
        .prop_map(|(toks, spaced)| {
            let mut s = String::new();
            for (i, sp) in toks {
                s.push_str(TOKENS[i]);
                if spaced || sp == 0 {
                    s.push(' ');
                }
            }
            s
        })
}

/// Soups that are "nearly" programs: definitions with random bodies.
pub fn structured_soup_strategy() -> impl Strategy<Value = String> {
    let body = proptest::collection::vec(0usize..TOKENS.len(), 0..24);
    proptest::collection::vec((0usize..6, body), 1..6).prop_map(|defs| {
        let mut s = String::new();
        for (k, (shape, body)) in defs.into_iter().enumerate() {
            let b = join_tokens(&body, TOKENS, true);
            match shape {
                0 => s.push_str(&format!("g{k} :: {b};\n")),
                1 => s.push_str(&format!("f{k} :: () {{ {b} }}\n")),
                2 => s.push_str(&format!("f{k} :: (x: i32) -> i32 {{ {b} }}\n")),
                3 => s.push_str(&format!("S{k} :: struct {{ {b} }};\n")),
                4 => s.push_str(&format!("main :: () {{ x := {b}; }}\n")),
                _ => s.push_str(&format!("{b}\n")),
            }
        }
        s
    })
}

pub fn unicode_strategy(max_len: usize) -> impl Strategy<Value = String> {
    proptest::collection::vec(
        prop_oneof![
            3 => any::<char>().prop_map(|c| c.to_string()),
            3 => (0x20u8..0x7f).prop_map(|b| (b as char).to_string()),
            2 => (0usize..TOKENS.len()).prop_map(|i| TOKENS[i].to_string()),
            1 => Just("\n".to_string()),
            1 => Just("\r\n".to_string()),
            1 => Just("\t".to_string()),
            1 => Just("\"".to_string()),
            1 => Just("'".to_string()),
            1 => Just("\\".to_string()),
            1 => Just("//".to_string()),
            1 => Just("\u{a0}".to_string()),
            1 => Just("é".to_string()),
            1 => Just("٣".to_string()),
        ],
        0..max_len,
    )
    .prop_map(|v| v.concat())
}

// ---------------------------------------------------------------------------------------------
// corpus

fn walk(dir: &Path, out: &mut Vec<std::path::PathBuf>) {
    let Ok(rd) = std::fs::read_dir(dir) else { return };
    let mut entries: Vec<_> = rd.filter_map(|e| e.ok()).map(|e| e.path()).collect();
    entries.sort();
    for p in entries {
        if p.is_dir() {
            walk(&p, out);
        } else {
            out.push(p);
        }
    }
}

/// Every source text the repository itself contains: examples, core, parser fixtures and the
/// snippets embedded in the hir / hir_ty / codegen tests. Sorted, deterministic.
pub fn corpus() -> Vec<String> {
    let mut out = Vec::new();
    let mut files = Vec::new();
    walk(Path::new("/repo/examples"), &mut files);
    walk(Path::new("/repo/core/src"), &mut files);
    walk(Path::new("/repo/crates/codegen/src/tests"), &mut files);
    for f in &files {
        if f.extension().is_some_and(|e| e == "capy") {
            if let Ok(t) = std::fs::read_to_string(f) {
                out.push(t);
            }
        }
    }
    let mut fixtures = Vec::new();
    walk(Path::new("/repo/crates/parser/src/tests"), &mut fixtures);
    for f in &fixtures {
        if f.extension().is_some_and(|e| e == "test") {
            if let Ok(t) = std::fs::read_to_string(f) {
                if let Some(i) = t.find("\n===") {
                    out.push(t[..i].to_string());
                }
            }
        }
    }
    let mut rs = Vec::new();
    walk(Path::new("/repo/crates/hir_ty/src/tests"), &mut rs);
    walk(Path::new("/repo/crates/hir/src"), &mut rs);
    rs.push("/repo/crates/codegen/src/tests.rs".into());
    rs.push("/repo/crates/ast/src/lib.rs".into());
    let re = regex::Regex::new(r##"(?s)check(?:_impl|_raw)?\(\s*r#"(.*?)"#"##).unwrap();
    for f in &rs {
        if f.extension().is_some_and(|e| e == "rs") {
            if let Ok(t) = std::fs::read_to_string(f) {
                for c in re.captures_iter(&t) {
                    out.push(c[1].to_string());
                }
            }
        }
    }
    out.retain(|t| !t.trim().is_empty() && t.len() <= 64 * 1024);
    out.sort();
    out.dedup();
    out
}

#[derive(Debug, Clone)]
pub enum Mutation {
    DeleteToken(usize),
    DupToken(usize),
    SwapTokens(usize, usize),
    ReplaceToken(usize, usize),
    InsertToken(usize, usize),
    TruncateAt(usize),
    Splice(usize, usize, usize),
    DeleteByte(usize),
    InsertChar(usize, char),
    FlipBracket(usize),
}

pub fn mutation_strategy() -> impl Strategy<Value = Mutation> {
    let big = 0usize..1_000_000;
    prop_oneof![
        3 => big.clone().prop_map(Mutation::DeleteToken),
        2 => big.clone().prop_map(Mutation::DupToken),
        2 => (big.clone(), big.clone()).prop_map(|(a, b)| Mutation::SwapTokens(a, b)),
        3 => (big.clone(), 0usize..TOKENS.len()).prop_map(|(a, b)| Mutation::ReplaceToken(a, b)),
        3 => (big.clone(), 0usize..TOKENS.len()).prop_map(|(a, b)| Mutation::InsertToken(a, b)),
        2 => big.clone().prop_map(Mutation::TruncateAt),
        1 => (big.clone(), big.clone(), big.clone()).prop_map(|(a, b, c)| Mutation::Splice(a, b, c)),
        1 => big.clone().prop_map(Mutation::DeleteByte),
        1 => (big.clone(), any::<char>()).prop_map(|(a, c)| Mutation::InsertChar(a, c)),
        2 => big.prop_map(Mutation::FlipBracket),
    ]
}

fn token_spans(text: &str) -> Vec<(usize, usize)> {
    let toks = lexer::lex(text);
    (0..toks.len())
        .map(|i| {
            let r = toks.range(i);
            (u32::from(r.start()) as usize, u32::from(r.end()) as usize)
        })
        .filter(|(s, e)| s <= e && *e <= text.len() && text.is_char_boundary(*s) && text.is_char_boundary(*e))
        .collect()
}

fn floor_boundary(s: &str, mut i: usize) -> usize {
    i = i.min(s.len());
    while !s.is_char_boundary(i) {
        i -= 1;
    }
    i
}

pub fn apply_mutation(text: &str, m: &Mutation, corpus: &[String]) -> String {
    let spans = match catch(|| token_spans(text)) {
        Ok(s) => s,
        Err(_) => Vec::new(),
    };
    let pick = |i: usize| -> Option<(usize, usize)> {
        if spans.is_empty() { None } else { Some(spans[i % spans.len()]) }
    };
    match m {
        Mutation::DeleteToken(i) => match pick(*i) {
            Some((s, e)) => format!("{}{}", &text[..s], &text[e..]),
            None => text.to_string(),
        },
        Mutation::DupToken(i) => match pick(*i) {
            Some((s, e)) => format!("{}{} {}", &text[..e], &text[s..e], &text[e..]),
            None => text.to_string(),
        },
        Mutation::SwapTokens(i, j) => match (pick(*i), pick(*j)) {
            (Some(a), Some(b)) if a.1 <= b.0 => format!(
                "{}{}{}{}{}",
                &text[..a.0], &text[b.0..b.1], &text[a.1..b.0], &text[a.0..a.1], &text[b.1..]
            ),
            (Some(b), Some(a)) if a.1 <= b.0 => format!(
                "{}{}{}{}{}",
                &text[..a.0], &text[b.0..b.1], &text[a.1..b.0], &text[a.0..a.1], &text[b.1..]
            ),
            _ => text.to_string(),
        },
        Mutation::ReplaceToken(i, t) => match pick(*i) {
            Some((s, e)) => format!("{}{}{}", &text[..s], TOKENS[*t], &text[e..]),
            None => TOKENS[*t].to_string(),
        },
        Mutation::InsertToken(i, t) => match pick(*i) {
            Some((s, _)) => format!("{} {} {}", &text[..s], TOKENS[*t], &text[s..]),
            None => TOKENS[*t].to_string(),
        },
        Mutation::TruncateAt(i) => match pick(*i) {
            Some((s, _)) => text[..s].to_string(),
            None => String::new(),
        },
        Mutation::Splice(i, c, j) => {
            if corpus.is_empty() {
                return text.to_string();
            }
            let other = &corpus[*c % corpus.len()];
            let at = pick(*i).map(|x| x.0).unwrap_or(0);
            let from = floor_boundary(other, *j % (other.len() + 1));
            let mut out = format!("{}{}", &text[..at], &other[from..]);
            if out.len() > 64 * 1024 {
                let cut = floor_boundary(&out, 64 * 1024);
                out.truncate(cut);
            }
            out
        }
        Mutation::DeleteByte(i) => {
            if text.is_empty() {
                return String::new();
            }
            let s = floor_boundary(text, *i % text.len());
            let c = text[s..].chars().next().map(|c| c.len_utf8()).unwrap_or(0);
            format!("{}{}", &text[..s], &text[s + c..])
        }
        Mutation::InsertChar(i, c) => {
            let s = floor_boundary(text, *i % (text.len() + 1));
            format!("{}{}{}", &text[..s], c, &text[s..])
        }
        Mutation::FlipBracket(i) => {
            let brs: Vec<(usize, usize)> = spans
                .iter()
                .copied()
                .filter(|(s, e)| matches!(&text[*s..*e], "(" | ")" | "[" | "]" | "{" | "}"))
                .collect();
            if brs.is_empty() {
                return text.to_string();
            }
            let (s, e) = brs[*i % brs.len()];
            let repl = match &text[s..e] {
                "(" => "{",
                ")" => "]",
                "[" => "(",
                "]" => "}",
                "{" => "[",
                _ => ")",
            };
            format!("{}{}{}", &text[..s], repl, &text[e..])
        }
    }
}

pub fn mutated_corpus_strategy(corpus: std::sync::Arc<Vec<String>>) -> impl Strategy<Value = String> {
    let n = corpus.len().max(1);
    (0usize..n, proptest::collection::vec(mutation_strategy(), 1..4)).prop_map(move |(i, ms)| {
        if corpus.is_empty() {
            return String::new();
        }
        let mut t = corpus[i].clone();
        for m in &ms {
            t = apply_mutation(&t, m, &corpus);
        }
        t
    })
}

/// A deterministic mix of soups, structured soups, unicode strings and corpus mutations.
pub fn mixed_inputs(seed: u64, salt: &str, n: usize, max_tokens: usize) -> Vec<String> {
    let corpus = std::sync::Arc::new(corpus());
    let mut out = Vec::new();
    out.extend(draw(seed, &format!("{salt}:soup"), &soup_strategy(max_tokens.min(60)), n / 4));
    out.extend(draw(seed, &format!("{salt}:ssoup"), &structured_soup_strategy(), n / 4));
    out.extend(draw(seed, &format!("{salt}:uni"), &unicode_strategy(max_tokens.min(80)), n / 8));
    let rest = n - out.len();
    out.extend(draw(seed, &format!("{salt}:mut"), &mutated_corpus_strategy(corpus), rest));
    out
}

// ---------------------------------------------------------------------------------------------
// shrinking of plain texts (ddmin over tokens, then chars)

pub fn shrink_text(text: &str, still_fails: &dyn Fn(&str) -> bool) -> String {
    let mut cur = text.to_string();
    // token-level ddmin
    for _round in 0..6 {
        let spans = match catch(|| token_spans(&cur)) {
            Ok(s) if !s.is_empty() => s,
            _ => break,
        };
        let mut chunk = (spans.len() / 2).max(1);
        let mut changed = false;
        let mut pieces: Vec<String> = spans.iter().map(|(s, e)| cur[*s..*e].to_string()).collect();
        while chunk >= 1 {
            let mut i = 0;
            while i < pieces.len() {
                let end = (i + chunk).min(pieces.len());
                let cand: String = pieces[..i].concat() + &pieces[end..].concat();
                if cand.len() < cur.len() && still_fails(&cand) {
                    pieces.drain(i..end);
                    cur = cand;
                    changed = true;
                } else {
                    i += chunk;
                }
            }
            if chunk == 1 {
                break;
            }
            chunk /= 2;
        }
        if !changed {
            break;
        }
    }
    // char-level pass
    let mut i = 0;
    let mut budget = 2000;
    while i < cur.len() && budget > 0 {
        budget -= 1;
        let c = cur[i..].chars().next().unwrap().len_utf8();
        let cand = format!("{}{}", &cur[..i], &cur[i + c..]);
        if still_fails(&cand) {
            cur = cand;
        } else {
            i += c;
        }
    }
    cur
}

// ---------------------------------------------------------------------------------------------
// in-process front end (lex -> parse -> validate -> index -> lower), every diagnostic rendered

/// Near-valid programs whose only problems are type errors, most of them of kinds that carry a
/// help range (immutable binding / parameter / reference), shifted around by comment lines,
/// tabs and multi-byte characters so that line/column arithmetic is exercised.
pub fn type_error_inputs() -> Vec<String> {
    let bodies = [
        "x :: 5;\n    x = 6;",
        "x : i32 : 5;\n\tx += 1;",
        "s :: \"é\";\n    y :: 1;\n    y = 2;",
        "a := 1;\n    p :: ^a;\n    p^ = 4;",
        "a :: 1;\n    p :: ^mut a;",
        "arr :: i32.[1, 2];\n    arr[0] = 3;",
        "b : bool = 1;",
        "n : i32 = \"text\";",
        "u : u8 = 300;",
        "q := undefined_name;",
        "z : i32 = 1;\n    z = true;",
    ];
    let params = ["(v: i32) { v = 1; }", "(s: P) { s.a = 2; }", "(p: ^i32) { p^ = 3; }"];
    let prefixes = ["", "// é comment\n", "\n\n", "// a\n// 😀😀\n\n", "\t\n // x\n"];
    let indents = ["    ", "\t", "  \t ", "        "];
    let mut out = Vec::new();
    for (bi, b) in bodies.iter().enumerate() {
        for (pi, pre) in prefixes.iter().enumerate() {
            let ind = indents[(bi + pi) % indents.len()];
            out.push(format!("{pre}main :: () {{\n{ind}{}\n}}\n", b.replace("\n    ", &format!("\n{ind}"))));
        }
    }
    for (fi, f) in params.iter().enumerate() {
        for pre in prefixes.iter() {
            out.push(format!("{pre}P :: struct {{ a: i32 }};\n// é\nf{fi} :: {f}\nmain :: () {{}}\n"));
        }
    }
    out
}

pub struct RenderedDiag {
    /// byte offset where the diagnostic's range starts
    pub start: u32,
    /// byte offset where the attached help's range starts, if there is one
    pub help_start: Option<u32>,
    /// rendered lines (None if rendering panicked)
    pub lines: Option<Vec<String>>,
    pub is_error: bool,
    pub phase: &'static str,
}

pub struct FrontendResult {
    pub diags: Vec<RenderedDiag>,
    /// which phase the run stopped in, if it did not complete ("lower-panic", "infer-panic:<key>", "comptime")
    pub stopped: Option<String>,
}

pub const COMPTIME_SENTINEL: &str = "capyv: comptime evaluation requested";

/// Runs lex -> parse -> validate -> index -> lower -> infer on one file in a fresh thread (the hir
/// crates keep thread-local state) and renders every diagnostic. Comptime evaluation is not
/// performed: the first request ends the run ("comptime").
pub fn frontend(text: &str, with_inference: bool) -> FrontendResult {
    let text = text.to_string();
    let h = std::thread::Builder::new().stack_size(16 << 20).spawn(move || frontend_here(&text, with_inference)).unwrap();
    match h.join() {
        Ok(r) => r,
        Err(_) => FrontendResult { diags: Vec::new(), stopped: Some("thread-panic".into()) },
    }
}

fn frontend_here(text: &str, with_inference: bool) -> FrontendResult {
    use ast::AstNode;
    let mut interner = interner::Interner::default();
    let mut uid_gen = uid_gen::UIDGenerator::default();
    let mut stopped = None;
    let tokens = lexer::lex(text);
    let parse = parser::parse_source_file(&tokens, text);
    let tree = parse.syntax_tree();
    let root = ast::Root::cast(tree.root(), tree).unwrap();
    let mut diags: Vec<(diagnostics::Diagnostic, &'static str)> = Vec::new();
    diags.extend(parse.errors().iter().cloned().map(|d| (diagnostics::Diagnostic::from_syntax(d), "syntax")));
    diags.extend(ast::validation::validate(root, tree).iter().cloned().map(|d| (diagnostics::Diagnostic::from_validation(d), "validation")));
    let (index, indexing) = hir::index(root, tree, &mut interner);
    diags.extend(indexing.iter().cloned().map(|d| (diagnostics::Diagnostic::from_indexing(d), "indexing")));
    let mod_dir = Path::new("/repo");
    let file = Path::new("/verif/work/inproc/main.capy");
    let module = hir::common::FileName(interner.intern(&file.to_string_lossy()));
    let lowered = catch(|| hir::lower(root, tree, file, &index, &mut uid_gen, &mut interner, mod_dir, false));
    match lowered {
        Err(k) => stopped = Some(format!("lower-panic:{k}")),
        Ok((bodies, lowering)) => {
            diags.extend(lowering.iter().cloned().map(|d| (diagnostics::Diagnostic::from_lowering(d), "lowering")));
            if with_inference && bodies.imports().is_empty() {
                let mut world_index = hir::WorldIndex::default();
                let mut world_bodies = hir::WorldBodies::default();
                world_index.add_file(module, index.clone());
                world_bodies.add_file(module, bodies);
                let entry = hir::common::Fqn { file: module, name: hir::common::Name(interner.intern("main")) };
                let has_main = world_bodies[module].global_exists(entry.name);
                let mut generic_values = la_arena::Arena::new();
                let res = catch(|| {
                    hir_ty::InferenceCtx::new(&world_index, &world_bodies, &interner, &mut generic_values, |_c, _t| -> hir::common::ComptimeResult {
                        panic!("{}", COMPTIME_SENTINEL)
                    })
                    .finish(if has_main { Some(entry) } else { None }, true)
                });
                match res {
                    Err(k) if k.contains("comptime evaluation requested") => stopped = Some("comptime".into()),
                    Err(k) => stopped = Some(format!("infer-panic:{k}")),
                    Ok(r) => {
                        diags.extend(r.diagnostics.into_iter().map(|d| (diagnostics::Diagnostic::from_ty(d), "types")));
                    }
                }
            } else if with_inference {
                stopped = Some("imports".into());
            }
        }
    }
    let line_index = line_index::LineIndex::new(text);
    let out = diags
        .iter()
        .map(|(d, phase)| RenderedDiag {
            start: u32::from(d.range().start()),
            help_start: d.help().map(|h| u32::from(h.range().start())),
            lines: catch(|| d.display("main.capy", text, mod_dir, &interner, &line_index, false)).ok(),
            is_error: d.severity() == diagnostics::Severity::Error,
            phase,
        })
        .collect();
    FrontendResult { diags: out, stopped }
}
