//! C12 — implicit conversion is consistent, order-independent and weaker than casting.
//!
//! In-process on hir::common::Ty. Laws (from the property statement):
//!   L1  A.can_fit_into(A)
//!   L2  A.can_fit_into(B)            => A.can_cast_to(B)
//!   L3  A.is_weak_replaceable_by(B)  => A.can_fit_into(B)
//!   L4  A.max(B) = Some(M)           => A.can_fit_into(M) && B.can_fit_into(M)
//!   L5  A.max(B) == B.max(A)
//! Exhaustive over all pairs of types of constructor depth <= 1; proptest at depth 2.

use crate::common::*;
use hir::common::{MemberTy, Name, ParamTy, Ty};
use internment::Intern;
use proptest::prelude::*;
use serde_json::json;

pub struct Universe {
    pub names: Vec<Name>,
    pub base: Vec<Ty>,
    pub core: Vec<Ty>,
    pub interner: interner::Interner,
}

fn prim_name(t: &Ty) -> Option<String> {
    Some(match t {
        Ty::IInt(0) => "{int}".into(),
        Ty::UInt(0) => "{uint}".into(),
        Ty::Float(0) => "{float}".into(),
        Ty::IInt(255) => "isize".into(),
        Ty::UInt(255) => "usize".into(),
        Ty::IInt(n) => format!("i{n}"),
        Ty::UInt(n) => format!("u{n}"),
        Ty::Float(n) => format!("f{n}"),
        Ty::Bool => "bool".into(),
        Ty::String => "str".into(),
        Ty::Char => "char".into(),
        Ty::Type => "type".into(),
        Ty::Any => "any".into(),
        Ty::RawPtr { mutable: false } => "rawptr".into(),
        Ty::RawPtr { mutable: true } => "mut-rawptr".into(),
        Ty::RawSlice => "rawslice".into(),
        Ty::Nil => "nil".into(),
        Ty::Void => "void".into(),
        _ => return None,
    })
}

/// Constructor skeleton with uids, sizes and member names dropped, integer widths collapsed to
/// classes — the key under which failing pairs are grouped.
pub fn skeleton(t: &Ty, exact: bool) -> String {
    if let Some(p) = prim_name(t) {
        if exact {
            return p;
        }
        return match t {
            Ty::IInt(0) | Ty::UInt(0) | Ty::Float(0) => p,
            Ty::IInt(_) => "iN".into(),
            Ty::UInt(_) => "uN".into(),
            Ty::Float(_) => "fN".into(),
            _ => p,
        };
    }
    match t {
        Ty::AnonArray { sub_ty, .. } => format!("AnonArray({})", skeleton(sub_ty, exact)),
        Ty::ConcreteArray { sub_ty, .. } => format!("Array({})", skeleton(sub_ty, exact)),
        Ty::Slice { sub_ty } => format!("Slice({})", skeleton(sub_ty, exact)),
        Ty::Pointer { mutable, sub_ty } => format!("{}({})", if *mutable { "MutPtr" } else { "Ptr" }, skeleton(sub_ty, exact)),
        Ty::Distinct { sub_ty, .. } => format!("Distinct({})", skeleton(sub_ty, exact)),
        Ty::Optional { sub_ty } => format!("Optional({})", skeleton(sub_ty, exact)),
        Ty::ErrorUnion { error_ty, payload_ty } => format!("ErrorUnion({},{})", skeleton(error_ty, exact), skeleton(payload_ty, exact)),
        Ty::AnonStruct { members } => format!("AnonStruct({})", members.iter().map(|m| skeleton(&m.ty, exact)).collect::<Vec<_>>().join(",")),
        Ty::ConcreteStruct { members, .. } => format!("Struct({})", members.iter().map(|m| skeleton(&m.ty, exact)).collect::<Vec<_>>().join(",")),
        Ty::Enum { variants, .. } => format!("Enum({})", variants.len()),
        Ty::EnumVariant { sub_ty, .. } => format!("Variant({})", skeleton(sub_ty, exact)),
        Ty::FunctionPointer { param_tys, return_ty } => format!(
            "FnPtr({})->{}",
            param_tys.iter().map(|p| skeleton(&p.ty, exact)).collect::<Vec<_>>().join(","),
            skeleton(return_ty, exact)
        ),
        other => format!("{:?}", other),
    }
}

impl Universe {
    pub fn new() -> Universe {
        let mut interner = interner::Interner::default();
        let names = ["a", "b", "A", "B", "C"].iter().map(|n| Name(interner.intern(n))).collect();
        let mut base = Vec::new();
        for w in [0u8, 8, 16, 32, 64, 128, 255] {
            base.push(Ty::IInt(w));
            base.push(Ty::UInt(w));
        }
        for w in [0u8, 32, 64] {
            base.push(Ty::Float(w));
        }
        base.extend([
            Ty::Bool,
            Ty::String,
            Ty::Char,
            Ty::Type,
            Ty::Any,
            Ty::RawPtr { mutable: false },
            Ty::RawPtr { mutable: true },
            Ty::RawSlice,
            Ty::Nil,
            Ty::Void,
        ]);
        let core = vec![Ty::IInt(32), Ty::UInt(8), Ty::UInt(0), Ty::IInt(0), Ty::Float(32), Ty::Bool, Ty::String, Ty::Void];
        Universe { names, base, core, interner }
    }

    fn member(&self, i: usize, ty: &Ty) -> MemberTy {
        MemberTy { name: self.names[i], ty: Intern::new(ty.clone()) }
    }

    /// Enums with uid in {10, 11}; returns (enum type, variants). Registers ENUM_MAP.
    pub fn enums(&self) -> Vec<(Ty, Vec<Ty>)> {
        let mut out = Vec::new();
        for (enum_uid, payloads) in [(10u32, vec![Ty::Void, Ty::IInt(32)]), (11u32, vec![Ty::Void, Ty::IInt(32)]), (12u32, vec![Ty::String, Ty::Void, Ty::UInt(8)])] {
            let variants: Vec<Ty> = payloads
                .iter()
                .enumerate()
                .map(|(k, p)| Ty::EnumVariant {
                    enum_uid,
                    variant_name: self.names[2 + k],
                    uid: enum_uid * 10 + k as u32,
                    sub_ty: Intern::new(p.clone()),
                    discriminant: k as u64,
                })
                .collect();
            let e = Ty::Enum { uid: enum_uid, variants: variants.iter().map(|v| Intern::new(v.clone())).collect() };
            hir::common::set_enum_uid(enum_uid, Intern::new(e.clone()));
            out.push((e, variants));
        }
        out
    }

    /// All types obtained by applying one constructor to the given argument types.
    pub fn apply_constructors(&self, args: &[Ty], core: &[Ty]) -> Vec<Ty> {
        let mut out = Vec::new();
        let i = |t: &Ty| Intern::new(t.clone());
        for a in args {
            for size in [0u64, 2, 3] {
                out.push(Ty::AnonArray { size, sub_ty: i(a) });
                out.push(Ty::ConcreteArray { size, sub_ty: i(a) });
            }
            out.push(Ty::Slice { sub_ty: i(a) });
            out.push(Ty::Pointer { mutable: false, sub_ty: i(a) });
            out.push(Ty::Pointer { mutable: true, sub_ty: i(a) });
            out.push(Ty::Optional { sub_ty: i(a) });
            for slot in [0u32, 1] {
                // a uid identifies one declaration, so it determines the underlying type
                let uid = 1000 + 2 * (fnv(format!("{:?}", a).as_bytes()) % 100_000) as u32 + slot;
                out.push(Ty::Distinct { uid, sub_ty: i(a) });
            }
        }
        for a in core {
            for b in core {
                out.push(Ty::ErrorUnion { error_ty: i(a), payload_ty: i(b) });
                out.push(Ty::AnonStruct { members: vec![self.member(0, a), self.member(1, b)] });
                out.push(Ty::AnonStruct { members: vec![self.member(1, b), self.member(0, a)] });
                for slot in [0u32, 1] {
                    let uid = 300_000 + 2 * (fnv(format!("{:?}{:?}", a, b).as_bytes()) % 100_000) as u32 + slot;
                    out.push(Ty::ConcreteStruct { uid, members: vec![self.member(0, a), self.member(1, b)] });
                }
                out.push(Ty::FunctionPointer {
                    param_tys: vec![ParamTy { ty: i(a), comptime: None, varargs: false, impossible_to_differentiate: false }],
                    return_ty: i(b),
                });
            }
            out.push(Ty::AnonStruct { members: vec![self.member(0, a)] });
            out.push(Ty::AnonStruct { members: vec![self.member(1, a)] });
            for slot in [0u32, 1] {
                let uid = 600_000 + 2 * (fnv(format!("{:?}", a).as_bytes()) % 100_000) as u32 + slot;
                out.push(Ty::ConcreteStruct { uid, members: vec![self.member(0, a)] });
            }
            out.push(Ty::FunctionPointer { param_tys: vec![], return_ty: i(a) });
        }
        out
    }
}

pub struct PairOutcome {
    pub any_true: bool,
}

/// Coarse grouping key: the head constructor only (primitives collapsed into classes).
pub fn head(t: &Ty) -> String {
    if prim_name(t).is_some() {
        return skeleton(t, false);
    }
    let s = skeleton(t, false);
    s.split('(').next().unwrap_or(&s).to_string()
}

pub fn check_pair(a: &Ty, b: &Ty) -> Result<PairOutcome, (String, String)> {
    let sk = |t: &Ty| head(t);
    let show = |t: &Ty| format!("{:?}", t);
    let mut any_true = false;
    // L1
    for t in [a, b] {
        match catch(|| t.can_fit_into(t)) {
            Err(k) => return Err((format!("C12:L1:panic:{}:{k}", sk(t)), format!("can_fit_into panicked for A = A = {}", show(t)))),
            Ok(false) => return Err((format!("C12:L1:{}", sk(t)), format!("{} does not fit into itself", show(t)))),
            Ok(true) => {}
        }
    }
    // L2
    let fits = match catch(|| a.can_fit_into(b)) {
        Err(k) => return Err((format!("C12:L2:panic-fit:{}:{}:{k}", sk(a), sk(b)), format!("can_fit_into panicked for A = {}, B = {}", show(a), show(b)))),
        Ok(v) => v,
    };
    if fits {
        any_true = true;
        match catch(|| a.can_cast_to(b)) {
            Err(k) => return Err((format!("C12:L2:panic-cast:{}:{}:{k}", sk(a), sk(b)), format!("can_cast_to panicked for A = {}, B = {}", show(a), show(b)))),
            Ok(false) => {
                return Err((
                    format!("C12:L2:fit({},{})", sk(a), sk(b)),
                    format!("A = {} is implicitly accepted where B = {} is expected, but the explicit cast B.(A) is rejected", show(a), show(b)),
                ));
            }
            Ok(true) => {}
        }
    }
    // L3
    match catch(|| a.is_weak_replaceable_by(b)) {
        Err(k) => return Err((format!("C12:L3:panic:{}:{}:{k}", sk(a), sk(b)), format!("is_weak_replaceable_by panicked for A = {}, B = {}", show(a), show(b)))),
        Ok(true) => {
            any_true = true;
            if !fits {
                return Err((
                    format!("C12:L3:weak({},{})", sk(a), sk(b)),
                    format!("weak A = {} can be specialised to B = {} but A is not implicitly accepted where B is expected", show(a), show(b)),
                ));
            }
        }
        Ok(false) => {}
    }
    // L4, L5
    let m_ab = match catch(|| a.max(b)) {
        Err(k) => return Err((format!("C12:L4:panic:{}:{}:{k}", sk(a), sk(b)), format!("max panicked for A = {}, B = {}", show(a), show(b)))),
        Ok(v) => v,
    };
    let m_ba = match catch(|| b.max(a)) {
        Err(k) => return Err((format!("C12:L4:panic:{}:{}:{k}", sk(b), sk(a)), format!("max panicked for A = {}, B = {}", show(b), show(a)))),
        Ok(v) => v,
    };
    if m_ab != m_ba {
        let (x, y) = if sk(a) <= sk(b) { (a, b) } else { (b, a) };
        return Err((
            format!("C12:L5:max({},{})", sk(x), sk(y)),
            format!("max depends on the order: A = {}, B = {}: A.max(B) = {:?}, B.max(A) = {:?}", show(a), show(b), m_ab, m_ba),
        ));
    }
    if let Some(m) = &m_ab {
        any_true = true;
        for (which, t) in [("A", a), ("B", b)] {
            match catch(|| t.can_fit_into(m)) {
                Err(k) => return Err((format!("C12:L4:panic-fit:{}:{}:{k}", sk(a), sk(b)), format!("can_fit_into(max) panicked for A = {}, B = {}", show(a), show(b)))),
                Ok(false) => {
                    let (x, y) = if sk(a) <= sk(b) { (a, b) } else { (b, a) };
                    return Err((
                        format!("C12:L4:max({},{})={}:rejects-{}", sk(x), sk(y), sk(m), sk(t)),
                        format!("A = {}, B = {}: common type {:?} does not accept {which}", show(a), show(b), m),
                    ));
                }
                Ok(true) => {}
            }
        }
    }
    Ok(PairOutcome { any_true })
}

fn enc(a: &Ty, b: &Ty) -> Vec<u8> {
    format!("{}\n{}\n// A = {:?}\n// B = {:?}\n", skeleton(a, true), skeleton(b, true), a, b).into_bytes()
}

pub fn run(ctx: &Ctx) -> i32 {
    let rule = "type universe: every primitive incl. weak {int}/{uint}/{float}, nil, void, any, rawptr, rawslice (27 base types) and one application of every constructor (anon/concrete array sizes 0/2/3, slice, ^, ^mut, optional, distinct uid 0/1, error union, anon/named struct with <= 2 members from a 2-name pool and uid pool, enum/variant, function pointer) => all ordered pairs of depth <= 1 types (exhaustive); proptest pairs at depth 2. Non-trivial = A != B and at least one of can_fit_into / is_weak_replaceable_by / max is true/Some for the pair; distinct by exact skeleton pair.";
    let u = Universe::new();
    let enums = u.enums();
    let mut depth1: Vec<Ty> = u.base.clone();
    depth1.extend(u.apply_constructors(&u.base, &u.core));
    for (e, vs) in &enums {
        depth1.push(e.clone());
        depth1.extend(vs.iter().cloned());
    }
    // replay: two skeleton lines; find the pair in the enumerated universe
    let find = |skel: &str, pool: &[Ty]| pool.iter().find(|t| skeleton(t, true) == skel).cloned();
    let replayer_pool = depth1.clone();
    let replayer = move |bytes: &[u8]| -> Option<String> {
        let text = String::from_utf8_lossy(bytes).to_string();
        let mut lines = text.lines();
        let a = find(lines.next()?, &replayer_pool)?;
        let b = find(lines.next()?, &replayer_pool)?;
        check_pair(&a, &b).err().map(|e| e.0)
    };
    if let Some(p) = &ctx.args.replay {
        let bytes = std::fs::read(p).unwrap_or_else(|e| {
            eprintln!("cannot read replay: {e}");
            std::process::exit(2)
        });
        let text = String::from_utf8_lossy(&bytes).to_string();
        let mut lines = text.lines();
        let mut pool = depth1.clone();
        pool.extend(u.apply_constructors(&depth1[..depth1.len().min(400)], &u.core));
        let (Some(a), Some(b)) = (lines.next().and_then(|l| find(l, &pool)), lines.next().and_then(|l| find(l, &pool))) else {
            eprintln!("replay types not found in the enumerated universe");
            return 2;
        };
        ctx.add_evals(1);
        if let Err((k, d)) = check_pair(&a, &b) {
            ctx.fail(&k, &d, &bytes);
        }
        return ctx.finish(rule, false, &[], &replayer);
    }

    ctx.class("depth<=1 types", depth1.len() as u64);
    let mut n = 0u64;
    let mut nt = 0u64;
    for a in &depth1 {
        for b in &depth1 {
            n += 1;
            match check_pair(a, b) {
                Ok(o) => {
                    if o.any_true && a != b {
                        nt += 1;
                        if ctx.sample_count() < 6 && nt % 997 == 1 {
                            ctx.sample(json!({"A": skeleton(a, true), "B": skeleton(b, true), "fits": a.can_fit_into(b), "max": a.max(b).map(|m| skeleton(&m, true))}));
                        }
                    }
                }
                Err((k, d)) => {
                    ctx.fail(&k, &d, &enc(a, b));
                }
            }
        }
    }
    ctx.add_evals(n);
    ctx.nontrivial_distinct(nt);

    // depth 2: random pairs
    let depth2_pool: Vec<Ty> = {
        let mut v = depth1.clone();
        // constructors over a sample of depth-1 types (all of them as single-argument args)
        v.extend(u.apply_constructors(&depth1, &[]));
        v
    };
    ctx.class("depth<=2 pool", depth2_pool.len() as u64);
    let cases = if ctx.thorough() { 150_000_000 } else { 200_000 };
    let len = depth2_pool.len();
    let strat = (0..len, 0..len, any::<bool>());
    search(ctx, "c12", cases, &strat, |(i, j, _)| enc(&depth2_pool[*i], &depth2_pool[*j]), |(i, j, near)| {
        // `near`: bias B towards types related to A (same constructor) by picking a neighbour index
        let a = &depth2_pool[*i];
        let b = if *near { &depth2_pool[(*i + (*j % 64)) % len] } else { &depth2_pool[*j] };
        ctx.add_evals(1);
        match check_pair(a, b) {
            Ok(o) => {
                if o.any_true && a != b {
                    ctx.nontrivial(fnv(format!("{}|{}", skeleton(a, true), skeleton(b, true)).as_bytes()));
                }
                Ok(())
            }
            Err(e) => Err(e),
        }
    });

    ctx.finish(
        rule,
        true,
        &[
            "Unknown, NotYetResolved, AlwaysJumps and File are outside the stated universe and are not generated",
            "violations are keyed by law and exact constructor skeleton of (A, B) (uids, sizes and member names dropped)",
        ],
        &replayer,
    )
}
