mod c25;
mod c26;
mod common;
mod gens;

use common::*;

fn main() {
    let args = parse_args();
    capture_stdout();
    install_panic_hook();
    let ctx = Ctx::new(args.clone());
    let code = match args.property.as_str() {
        "C25" => c25::run(&ctx),
        "C26" => c26::run(&ctx),
        other => {
            eprintln!("capyv-lib: no in-process check for {other}");
            2
        }
    };
    std::process::exit(code);
}
