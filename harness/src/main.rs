mod c12;
mod c17;
mod c22;
mod c23;
mod c24;
mod c25;
mod c26;
mod c27;
mod common;
mod gens;

use common::*;

fn main() {
    let args = parse_args();
    capture_stdout();
    install_panic_hook();
    let ctx = Ctx::new(args.clone());
    let code = match args.property.as_str() {
        "C12" => c12::run(&ctx),
        "C17" => c17::run(&ctx),
        "C22" => c22::run(&ctx),
        "C23" => {
            if args.extra.iter().any(|a| a == "--nest-child") {
                std::process::exit(c23::nest_child());
            }
            c23::run(&ctx)
        }
        "C24" => c24::run(&ctx),
        "C25" => {
            if let Some(i) = args.extra.iter().position(|a| a == "--partb-child") {
                let from = args.extra.get(i + 1).and_then(|x| x.parse().ok()).unwrap_or(0);
                std::process::exit(c25::part_b_child(&ctx, from));
            }
            c25::run(&ctx)
        }
        "GEN" => {
            // capyv-lib GEN --n N --out DIR [--salt S]: dumps the deterministic input mix used by the
            // in-process front-end checks, for the checks that drive the real CLI (C06)
            let get = |flag: &str| args.extra.iter().position(|a| a == flag).and_then(|i| args.extra.get(i + 1)).cloned();
            let n: usize = get("--n").and_then(|x| x.parse().ok()).unwrap_or(1000);
            let out = get("--out").unwrap_or_else(|| "/verif/work/gen".to_string());
            let salt = get("--salt").unwrap_or_else(|| "C06".to_string());
            let mut inputs = gens::mixed_inputs(args.seed, &salt, n, 80);
            inputs.extend(gens::type_error_inputs());
            std::fs::create_dir_all(&out).expect("create output directory");
            for (i, t) in inputs.iter().enumerate() {
                std::fs::write(format!("{out}/{i:06}.capy"), t).expect("write input");
            }
            eprintln!("wrote {} inputs to {out}", inputs.len());
            0
        }
        "C26" => c26::run(&ctx),
        "C27" => c27::run(&ctx),
        other => {
            eprintln!("capyv-lib: no in-process check for {other}");
            2
        }
    };
    std::process::exit(code);
}
