#!/bin/bash
# Builds (offline) the harness workspace: capyv-lib and the shipped CLI compiled from
# /repo/crates/capy/src/main.rs, against /repo's current working tree with --cfg capy_verif.
set -e
mkdir -p /verif/work
cd /verif/harness
export CARGO_NET_OFFLINE=true
# serialise concurrent builds (several checks may be started at once)
exec 9>/verif/work/build.lock
flock 9
cargo build --release --offline
