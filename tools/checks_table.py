HOOK_COMMITS = ["fd134dd", "64b0d90"]
FIX_COMMITS = ["8d2201b", "df04100", "1af35a7", "d4f6549", "fcb976d", "69fd084"]
ENGINES = [
 {"name": "E-lib", "path": "/verif/harness", "serves_properties": ["C12","C17","C22","C23","C24","C25","C26","C27"],
  "kind_free_text": "Rust (toolchain 1.88) binary capyv-lib linking /repo's crates: bounded exhaustive enumerators + proptest 1.11 (TestRunner, fixed ChaCha seed from VERIF_SEED, no persistence), reference models / laws as oracles"},
 {"name": "E-prog", "path": "/verif/pyv", "serves_properties": ["C01", "C03", "C08"],
  "kind_free_text": "Python (python3-vt) + Hypothesis 6.168: generated Capy programs compiled by the real CLI (built from /repo/crates/capy/src/main.rs) and executed; reference interpreter / metamorphic twins as oracles"},
]
NOTES = "All checks: ./check <id> --tier quick|thorough; VERIF_SEED is the only entropy; exit 2 = infrastructure trouble. Known findings: /verif/known_findings.json."
NOT_YET = {}
ELIB_NOTE = "trusts rustc, proptest, the small reference model in the harness source; explores the stated bounded domain exhaustively and beyond it by seeded random generation; absence of violations is established only on what was explored"
EPROG_NOTE = "trusts the reference interpreter / oracle model in /verif/pyv (written from README.md, core docs and the repo's tests, never from the compiler), Hypothesis, gcc as linker; the real CLI built from /repo/crates/capy/src/main.rs is what is exercised; absence of violations only on what was explored"
CHECKS = {
 "C03": {"engine": "E-prog", "technique": "Hypothesis-generated defer/jump programs run through the real CLI; oracle: defer-stack interpreter emitting a pattern (unreached defers optional), matched against stdout",
         "level": "1920/40000 generated functions with <= 4 nested blocks/loops, <= 3 defers per block and break/continue/return/.try at arbitrary positions, each run with two inputs; every statement prints a unique character, the output must match the LIFO exactly-once pattern",
         "note": EPROG_NOTE},
 "C08": {"engine": "E-prog", "technique": "Hypothesis-generated (type, operator, operand) tables evaluated at run time and in comptime by compiled programs; oracle: Python big-int / numpy IEEE arithmetic on bit patterns",
         "level": "~12000/300000 (case, mode) evaluations per run over all 12 integer types, f32/f64, bool, char: every binary/unary/comparison operator, all int->int cast pairs, int<->float and float<->float casts, boundary-biased operands",
         "note": EPROG_NOTE + "; numpy float32/float64 is the IEEE reference"},
 "C01": {"engine": "E-prog", "technique": "Hypothesis-generated whole programs (type-directed, by construction) compiled by the real CLI and executed; oracle: independent reference interpreter (stdout + exit status)",
         "level": "960 (quick) / 40000 (thorough) generated programs over 7 feature profiles; each must be accepted, link, and print exactly what the definitional interpreter computes and exit with main's result mod 256; failures are shrunk by Hypothesis to minimal programs",
         "note": EPROG_NOTE},
 "C12": {"engine": "E-lib", "technique": "exhaustive pair enumeration + proptest over hir::common::Ty against algebraic laws L1-L5",
         "level": "all ordered pairs of the ~900 types of constructor depth <= 1 (exhaustive, ~8e5 pairs) and 200k/5M random pairs at depth 2 are checked against the five laws of the statement (reflexivity of can_fit_into, fit => cast, weak-replaceable => fit, max accepts both operands, max symmetric); panics inside the relation functions are violations",
         "note": ELIB_NOTE + "; uids are derived from the declaration so that one uid names one type; Unknown/NotYetResolved/AlwaysJumps/File are outside the universe"},
 "C17": {"engine": "E-lib", "technique": "exhaustive type enumeration (depth <= 2) + random depth 3 through the layout hook; oracle: documented layout rules recomputed independently + host gcc offsetof/_Alignof/sizeof for scalar structs",
         "level": "~14k/25k types at pointer width 64 and again at 32 (child process): alignment power of two <= 8, struct offsets ordered/aligned/non-overlapping/in size, array = len x stride, distinct/variant = underlying, ?pointer pointer-sized, tag right after the largest payload; 819/7380 scalar structs compared with gcc",
         "note": ELIB_NOTE + "; requires hook H1 (codegen::verif); gcc 12 is the C reference"},
 "C27": {"engine": "E-lib", "technique": "injectivity search over entity descriptors through the mangling hook (all pairs of a pool + proptest one-component variations)",
         "level": "all unordered pairs of a ~350-descriptor pool (exhaustive) plus 100k/1M random pairs, half of them differing in exactly one component; any two different descriptors must get different symbols and none may equal `main` or a `_CI..E` internal symbol",
         "note": ELIB_NOTE + "; requires hook H2 (codegen::verif::mangle_*)"},
 "C22": {"engine": "E-lib", "technique": "exhaustive enumeration + proptest + corpus mutation vs structural invariants, tokenizer.txt languages and a reference maximal-munch lexer",
         "level": "all strings of length <= 4 over a 25-symbol class alphabet and all <= 3-atom sequences over 71 atoms (exhaustive), 150k/3M random strings, corpus + 15k/200k corpus mutations; oracle: coverage/contiguity/char-boundary invariants, per-kind language membership read from tokenizer.txt, equality with an independent maximal-munch reference lexer",
         "note": ELIB_NOTE},
 "C23": {"engine": "E-lib", "technique": "exhaustive token-sequence enumeration + proptest soups + corpus mutation; oracle: no panic, step-count bound (hook), tree text == input, error ranges in bounds",
         "level": "all token sequences of length <= 5/6 over a 14-token reduced set and <= 7/8 over 8 bracket/list tokens (exhaustive), 60k/1.5M soups, corpus + 20k/300k mutations, nesting to depth 200 in a child process, both entry points; parser work is bounded by 4096+1024*tokens steps through the cfg hook, so non-termination and super-linear behaviour are deterministic failures",
         "note": ELIB_NOTE + "; requires hook H3 (parser::verif step counter)"},
 "C24": {"engine": "E-lib", "technique": "generated expression trees, minimal-parenthesis printer, parse and read back through the ast crate (round trip)",
         "level": "every binary tree with <= 3 operators over one representative per level, every 2-operator tree over all 18 operators, every prefix x postfix nesting (exhaustive) and 150k/3M random trees of depth <= 5; parsed tree (via ast accessors) must equal the generated tree, both as `x :: e;` and as a REPL line",
         "note": ELIB_NOTE},
 "C25": {"engine": "E-lib", "technique": "exhaustive enumeration + generated diagnostics vs newline-count model",
         "level": "every string of length <= 7 (quick) / 8 (thorough) over {a,\\n,\\r,\\t,e-acute} x every byte offset is compared with an independent newline-counting model (exhaustive on that domain); rendered diagnostics of ~1200/6000 generated inputs are checked for the 1-based header position",
         "note": ELIB_NOTE},
 "C26": {"engine": "E-lib", "technique": "model-based testing of TopoSort histories (exhaustive small bounds + proptest)",
         "level": "histories in InferenceCtx::finish's protocol are interpreted against topo::TopoSort and a pending-set/waits-on reference model in lock step; exhaustive for small (items, rounds) bounds, 200k/2M random histories up to 4+2 items x 8 rounds",
         "note": ELIB_NOTE},
}
