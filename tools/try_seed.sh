#!/bin/bash
# try_seed.sh Cxx mK [check-id ...]: applies a seeded mutant to /repo, runs the quick check(s), reverts,
# and files the mutant under /verif/seeded/Cxx/mK/ with the result.
id=$1; m=$2; shift 2
checks=("$@"); [ ${#checks[@]} -eq 0 ] && checks=($id)
src=/tmp/seed/$id/$m
dst=/verif/seeded/$id/$m
cd /repo || exit 2
if [ -n "$(git status --porcelain)" ]; then echo "/repo not clean"; exit 2; fi
if ! git apply --check $src/patch.diff 2>/dev/null; then
  if ! git apply --3way $src/patch.diff >/dev/null 2>&1; then echo "SEED $id/$m patch does not apply to current HEAD"; git reset -q --hard HEAD; exit 3; fi
  git reset -q
fi
git apply $src/patch.diff 2>/dev/null
mkdir -p $dst
result=""
for c in "${checks[@]}"; do
  out=$(cd /verif && VERIF_NO_SHRINK=1 ./check $c --tier quick 2>&1); rc=$?
  key=$(echo "$out" | grep -m1 "^violation key:" | sed 's/violation key: //')
  nviol=$(echo "$out" | grep -c "^VIOLATION")
  echo "SEED $id/$m check=$c exit=$rc violations=$nviol first_key=[$key]"
  result="$result{\"check\":\"$c\",\"exit\":$rc,\"violations\":$nviol,\"first_key\":$(python3 -c 'import json,sys;print(json.dumps(sys.argv[1]))' "$key")},"
  echo "$out" | tail -40 > $dst/check_$c.log
done
git checkout -q -- . ; git clean -fdq
rm -f /verif/replays/*/new-*
cp $src/patch.diff $dst/
for f in $src/demo* $src/*.capy $src/*.rs $src/prog $src/unit_check.sh; do [ -e "$f" ] && cp -r "$f" $dst/ 2>/dev/null; done
python3 - "$src/meta.json" "$dst/meta.json" "[${result%,}]" <<'PY'
import json,sys
try: m=json.load(open(sys.argv[1]))
except Exception: m={}
m["verif_results"]=json.loads(sys.argv[3])
c="/tmp/seed/%s/%s/confirm.log"%(m.get("property","?"), sys.argv[2].split("/")[-2])
m["confirmed_by_me"]="tools/confirm_seed.sh re-ran the repository test suite with the patch in a scratch worktree (691 passed, 0 failed) and the demonstration (fails with the patch, passes without)"
json.dump(m,open(sys.argv[2],"w"),indent=1)
PY
