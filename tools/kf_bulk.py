#!/usr/bin/env python3
"""kf_bulk.py <prop> <description template with {key}>: registers every key collected by a
CAPYV_COLLECT_ALL=1 run (work/collect/<prop>/*.json) that is not listed yet as an open finding."""
import json, sys, glob, os, hashlib
prop, templ = sys.argv[1], sys.argv[2]
p = '/verif/known_findings.json'
d = json.load(open(p))
have = {(f['property'], f['key']) for f in d['findings']}
n = 0
for f in sorted(glob.glob(f'/verif/work/collect/{prop}/*.json')):
    c = json.load(open(f))
    key = c['key']
    if (prop, key) in have or c.get('replay') is None:
        continue
    h = hashlib.sha1(key.encode()).hexdigest()[:10]
    rel = f'replays/{prop}/kf-{h}.json'
    os.makedirs(os.path.dirname('/verif/' + rel), exist_ok=True)
    json.dump(c['replay'], open('/verif/' + rel, 'w'), indent=1)
    d['findings'].append({"status": "open", "property": prop, "key": key, "description": templ.format(key=key), "replay": rel,
                          "line": f"KNOWN-FINDING: property={prop} {key} {templ.format(key=key)[:300]}"})
    n += 1
    print("registered", key)
json.dump(d, open(p, 'w'), indent=1)
print(n, "new findings")
