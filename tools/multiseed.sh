#!/bin/bash
# multiseed.sh Cxx [seeds...] : runs the quick check under several seeds; prints the last line of each
id=$1; shift; seeds=("$@"); [ ${#seeds[@]} -eq 0 ] && seeds=(0 1 2 3 4 5 6 7)
for s in "${seeds[@]}"; do out=$(VERIF_SEED=$s /verif/check $id --tier quick 2>&1); rc=$?; echo "seed=$s rc=$rc $(echo "$out" | grep -c '^VIOLATION') viol | $(echo "$out" | tail -1)"; done
rm -f /verif/replays/$id/new-*
