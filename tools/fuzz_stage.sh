#!/bin/bash
# fuzz_stage.sh <runs>: coverage-guided stage of `./check C23 --tier thorough` (libFuzzer through cargo-fuzz).
# The target (harness/fuzz/fuzz_targets/lexparse.rs) carries the C22 structural and the C23 oracles; the
# starting corpus is the deterministic GEN mix for VERIF_SEED. Exit 0 = no crash, 1 = crash (VIOLATION line),
# 2 = the stage could not be built / run (infrastructure).
runs=${1:-400000}
seed=$(( ${VERIF_SEED:-0} + 1 ))
cd /verif/harness/fuzz || exit 2
export CARGO_NET_OFFLINE=true RUSTFLAGS="--cfg capy_verif"
corpus=/verif/work/fuzz_corpus_$$
rm -rf "$corpus" artifacts; mkdir -p "$corpus"
/verif/target/release/capyv-lib GEN --n 600 --out "$corpus" >/dev/null 2>&1 || { echo "fuzz stage: cannot write the starting corpus" >&2; exit 2; }
if ! cargo +nightly fuzz build lexparse --fuzz-dir . > /verif/work/fuzz_build.log 2>&1; then
  echo "fuzz stage: cargo fuzz build failed (see /verif/work/fuzz_build.log)" >&2; rm -rf "$corpus"; exit 2
fi
log=/verif/work/fuzz_run.log
cargo +nightly fuzz run lexparse --fuzz-dir . "$corpus" -- -runs=$runs -seed=$seed -max_len=2048 -len_control=0 -print_final_stats=1 -timeout=600 -rss_limit_mb=4096 > "$log" 2>&1
rc=$?
execs=$(grep -E "^stat::number_of_executed_units" "$log" | awk '{print $2}')
cov=$(grep -E " cov: " "$log" | tail -1 | sed -E 's/.* cov: ([0-9]+).*/\1/')
corp=$(ls "$corpus" | wc -l)
status=0
# only crashes (panics = violated oracles) count; the parser's work is bounded deterministically by the fuel hook, so
# a libFuzzer wall-clock timeout / memory report says something about the load on the machine, not about the property
art=$(ls artifacts/lexparse/crash-* 2>/dev/null | head -1)
other=$(ls artifacts/lexparse/* 2>/dev/null | grep -v "/crash-" | head -1)
[ -n "$other" ] && echo "note: libFuzzer also reported $(basename "$other") (wall-clock / memory watchdog): inconclusive, not counted"
if [ -n "$art" ]; then
  mkdir -p /verif/replays/C23
  dest=/verif/replays/C23/new-fuzz-$(basename "$art" | cut -c1-24).replay
  cp "$art" "$dest"
  echo "coverage-guided stage: the target stopped on an input of $(stat -c %s "$art") bytes:"
  grep -E "panicked at|^C2[23]:|ERROR: libFuzzer" -A1 "$log" | head -8
  echo "VIOLATION property=C23 replay=$dest"
  status=1
elif [ $rc -ne 0 ] && [ -z "$other" ]; then
  echo "fuzz stage: libFuzzer exited with $rc without an artifact (see $log)" >&2
  status=2
fi
python3 - "$execs" "$cov" "$corp" "$seed" "$status" <<'PY'
import json, sys
p = '/verif/evidence/C23.json'
try:
    ev = json.load(open(p))
    ev['coverage']['coverage_guided_stage'] = {"engine": "libFuzzer via cargo-fuzz (target lexparse: C22 structural + C23 oracles in-target)", "executions": int(sys.argv[1] or 0),
                                               "edge_coverage": int(sys.argv[2] or 0), "final_corpus_files": int(sys.argv[3] or 0), "libfuzzer_seed": int(sys.argv[4]),
                                               "starting_corpus": "capyv-lib GEN --n 600 (soups, unicode, corpus mutations)", "crashes": 1 if sys.argv[5] == "1" else 0}
    if sys.argv[5] == "1":
        ev['violations'] = ev.get('violations', 0) + 1
    json.dump(ev, open(p, 'w'), indent=1)
except Exception as e:
    print("fuzz stage: could not add its statistics to the evidence:", e, file=sys.stderr)
PY
echo "coverage-guided stage: executions=${execs:-0} edge_coverage=${cov:-?} corpus_files=$corp crashes=$([ $status -eq 1 ] && echo 1 || echo 0)"
rm -rf "$corpus"
exit $status
