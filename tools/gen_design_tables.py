#!/usr/bin/env python3
"""Regenerates the generated part of DESIGN.md (between the AUTOGEN markers): fix / finding lists from
known_findings.json and the seeded-change table from seeded/*/*/meta.json."""
import json, glob, os, re, subprocess
V = '/verif'
d = json.load(open(f'{V}/known_findings.json'))
out = []
man = json.load(open(f'{V}/MANIFEST.json'))
out.append("### 7.3c The checks as built (supersedes the sizes in the summary table of section 3)\n")
out.append("| id | engine | technique | explored per run (quick/thorough) |\n|---|---|---|---|")
for c in man['checks']:
    out.append(f"| {c['property_id']} | {c['engine']} | {c['technique'].replace('|', '/')} | {c['level_claimed']['text'].replace('|', '/')} |")
out.append("")
out.append("### 7.4 Genuine defects repaired (`fix:` commits in /repo)\n")
log = subprocess.run(['git', '-C', '/repo', 'log', '--format=%h %s', 'd3d8f55..HEAD'], stdout=subprocess.PIPE).stdout.decode().strip().split('\n')
fixes = [l for l in log if ' fix:' in l[:14]]
byc = {}
for f in d['findings']:
    if f['status'] == 'fixed':
        byc.setdefault(f.get('commit', '?')[:7], []).append(f)
out.append("| commit | found by | what failed |\n|---|---|---|")
for l in reversed(fixes):
    h, msg = l.split(' ', 1)
    props = sorted({f['property'] for f in byc.get(h[:7], [])})
    out.append(f"| `{h}` | {', '.join(props) or 'reading / hand test'} | {msg[5:].replace('|', '/')[:260]} |")
out.append("")
out.append("### 7.5 Genuine defects listed, not repaired (open entries of known_findings.json)\n")
groups = {}
for f in d['findings']:
    if f['status'] == 'open':
        groups.setdefault((f['property'], f['description'][:200]), []).append(f['key'])
out.append("| property | keys | description |\n|---|---|---|")
for (p, desc), keys in sorted(groups.items()):
    ks = ', '.join(f"`{k}`" for k in keys[:4]) + (f" … ({len(keys)} keys)" if len(keys) > 4 else "")
    out.append(f"| {p} | {ks.replace('|', '/')} | {desc.replace('|', '/')} |")
out.append("")
out.append("### 7.6 Seeded changes (sub-agents, three per property) and which check catches them\n")
out.append("| change | what it breaks | caught by | first signature |\n|---|---|---|---|")
for mp in sorted(glob.glob(f'{V}/seeded/*/*/meta.json')):
    m = json.load(open(mp))
    name = '/'.join(mp.split('/')[-3:-1])
    vr = m.get('verif_results', [])
    caught = [r for r in vr if r.get('exit') == 1]
    cb = ', '.join(r['check'] for r in caught) if caught else ('— ' + (vr[0].get('note', 'not caught') if vr else 'not tried'))
    sig = caught[0].get('first_key', '')[:70] if caught else ''
    note = next((r.get('note') for r in vr if r.get('note')), None)
    what = (m.get('summary') or '')[:170].replace('|', '/').replace('\n', ' ')
    out.append(f"| {name} | {what} | {cb}{' (' + note[:120] + ')' if note and caught else ''} | `{sig}` |")
text = "\n".join(out) + "\n"
p = f'{V}/DESIGN.md'
s = open(p).read()
a, b = "<!-- AUTOGEN:BEGIN -->", "<!-- AUTOGEN:END -->"
if a in s:
    s = s[:s.index(a) + len(a)] + "\n" + text + s[s.index(b):]
else:
    s += f"\n{a}\n{text}{b}\n"
open(p, 'w').write(s)
print("tables written:", len(fixes), "fixes,", sum(1 for f in d['findings'] if f['status'] == 'open'), "open keys")
