#!/bin/bash
# confirm_seed.sh Cxx mK : re-confirms a sub-agent's mutant in its scratch worktree
# (tests pass with it; demo fails with it and passes without), then files it under /verif/seeded/.
id=$1; m=$2
wt=/tmp/wt/$id; src=/tmp/seed/$id/$m
out=/tmp/seed/$id/$m/confirm.log
: > $out
cd $wt || exit 2
git checkout -q -- . && git clean -fdq -e target
if ! git apply --check $src/patch.diff 2>>$out; then echo "PATCH-DOES-NOT-APPLY" >> $out; exit 1; fi
# demo without the mutant
CARGO_BUILD_JOBS=8 cargo build --offline -p capy >/dev/null 2>&1
(bash $src/demo.sh $wt >>$out 2>&1); clean_rc=$?
git apply $src/patch.diff
CARGO_BUILD_JOBS=8 cargo test --workspace --no-fail-fast --offline 2>&1 | grep -E "^test result|FAILED|failed" > $src/tests.log
fails=$(grep -c "FAILED\|failed;" $src/tests.log); okline=$(grep -E "^test result" $src/tests.log | awk '{s+=$4; f+=$6} END {print s" passed "f" failed"}')
CARGO_BUILD_JOBS=8 cargo build --offline -p capy >/dev/null 2>&1
(bash $src/demo.sh $wt >>$out 2>&1); mut_rc=$?
git checkout -q -- . && git clean -fdq -e target
echo "RESULT id=$id m=$m tests=[$okline] demo_clean_rc=$clean_rc demo_mutant_rc=$mut_rc" | tee -a $out
