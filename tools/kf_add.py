#!/usr/bin/env python3
"""kf_add.py <property> <status> <key> <replay-src or -> <description> [commit]: registers a finding."""
import json, sys, shutil, os, hashlib
prop, status, key, src, desc = sys.argv[1:6]
commit = sys.argv[6] if len(sys.argv) > 6 else None
p = '/verif/known_findings.json'
d = json.load(open(p))
rel = None
if src != '-':
    h = hashlib.sha1(key.encode()).hexdigest()[:10]
    ext = os.path.splitext(src)[1] or '.replay'
    rel = f'replays/{prop}/{"kf" if status=="open" else "fixed"}-{h}{ext}'
    os.makedirs(os.path.dirname('/verif/' + rel), exist_ok=True)
    if os.path.abspath(src) != '/verif/' + rel:
        shutil.copy(src, '/verif/' + rel)
d['findings'] = [f for f in d['findings'] if not (f['property'] == prop and f['key'] == key)]
e = {"status": status, "property": prop, "key": key, "description": desc}
if rel: e["replay"] = rel
if commit: e["commit"] = commit
e["line"] = (f"fixed: property={prop} {commit} {desc}" if status == "fixed" else f"KNOWN-FINDING: property={prop} {key} {desc[:300]}")
d['findings'].append(e)
json.dump(d, open(p, 'w'), indent=1)
print("registered", prop, key, rel)
