#!/bin/bash
# usage: seed_prompt.sh Cxx  -> prints the prompt for a mutation sub-agent
id=$1
prop=$(jq -c "select(.id==\"$id\") | {id,title,statement,quantifier:.quantifier.text,anchors:{files:.anchors.files,mechanism:.anchors.mechanism,observe_at:.anchors.observe_at}}" /verif/properties.jsonl | sed "s#/repo/#/tmp/wt/$id/#g")
cat <<EOT
You are helping evaluate a verification effort for the Capy compiler (a statically typed compiled language written in Rust: lexer, parser, HIR lowering, type inference, comptime execution, Cranelift codegen). You have your own scratch git worktree of the repository at /tmp/wt/$id (already created; work ONLY there; do NOT read or touch /verif or /repo; no network access exists; cargo must be run with --offline). The toolchain is pinned by rust-toolchain.toml (1.88). Build/test: \`cd /tmp/wt/$id && CARGO_BUILD_JOBS=6 cargo test --workspace --no-fail-fast --offline\` (the suite has ~690 tests; the two parser fixture tests parser::tests::repl_line / source_file may already fail on the unchanged tree in this sandbox, ignore those two). The CLI: \`cargo build --offline -p capy\` then \`target/debug/capy build <file>.capy --mod-dir /tmp/wt/$id --color never\` run from a scratch directory (it writes ./out/<stem>.o and ./out/<stem>; \`core :: #mod("core");\` resolves to <mod-dir>/core/src/mod.capy; debug builds print lots of debug noise — that is normal). See README.md, examples/, core/src, crates/codegen/src/tests.rs for the language.

Here is a semantic property of the compiler that should hold (JSON):

$prop

TASK: produce up to THREE independent, realistic source changes ("mutants") to the compiler under /tmp/wt/$id/crates (or core/, tokenizer.txt) such that each one
  (a) still compiles, and the existing test suite still passes with it (run it and confirm — same set of passing tests as on the unchanged tree),
  (b) BREAKS the property above, in a way that is subtle: it should need something specific to manifest (an unusual input shape, a particular value or size, a multi-step sequence, a specific combination of features, or two cooperating sites that each look fine alone) — NOT something any ordinary program or any trivial input would expose at once, and not a change that breaks everything,
  (c) looks like a plausible regression a maintainer could introduce (an off-by-one, a wrong width/signedness, a dropped case, a wrong order, a missing check, a stale cache, a refactor slip) — not sabotage like "if input == magic".
The three mutants should differ in mechanism (different code sites / different clauses of the property) where possible.

For each mutant k = 1,2,3 write to /tmp/seed/$id/m<k>/ :
  - patch.diff  : \`git diff\` of that mutant alone against the worktree HEAD (must apply with \`git apply\` to a clean checkout of HEAD),
  - a demonstration: a small Capy program / input file / Rust test / shell script (demo.sh that exits non-zero when the property is violated and 0 otherwise, taking the repo root as \$1) that FAILS with the mutant and PASSES without it — and actually run it both ways,
  - meta.json   : {"property": "$id", "summary": "...what was changed...", "breaks": "...which clause of the property and how...", "needs": "...what specific input/sequence is needed to manifest...", "ran": ["...commands you ran and their outcomes..."], "tests_pass_with_mutant": true/false}
Work on one mutant at a time: apply, build, run the test suite, run the demo, save the diff, then \`git checkout -- . && git clean -fdq -e target\` before the next one. Leave the worktree clean (HEAD state) at the end. Keep your final answer short: list the mutants, one line each, and whether (a),(b) were confirmed by actually running.
EOT
