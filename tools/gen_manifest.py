#!/usr/bin/env python3
"""Regenerates /verif/MANIFEST.json from the table below (one source of truth)."""
import json, sys
CHECKS = {
 # id: (engine, technique, level text, level note, design ref)
}
import importlib.util, os
spec = importlib.util.spec_from_file_location("checks_table", "/verif/tools/checks_table.py")
m = importlib.util.module_from_spec(spec); spec.loader.exec_module(m)
props = [json.loads(l) for l in open('/verif/properties.jsonl')]
checks = []
na = []
for p in props:
    pid = p['id']
    if pid in m.CHECKS:
        c = m.CHECKS[pid]
        checks.append({
            "property_id": pid,
            "quick_cmd": f"./check {pid} --tier quick",
            "thorough_cmd": f"./check {pid} --tier thorough",
            "evidence_file": f"/verif/evidence/{pid}.json",
            "replay_cmd_template": f"./check {pid} --replay {{path}}",
            "engine": c["engine"],
            "level_claimed": {"category": "exploration", "text": c["level"], "design_ref": f"DESIGN.md section 3, {pid}"},
            "level_note": c["note"],
            "technique": c["technique"],
        })
    else:
        na.append({"property_id": pid, "reason": m.NOT_YET.get(pid, "check not built yet in this session; design in DESIGN.md section 3")})
manifest = {
    "version": 1,
    "setup_cmd": "./build.sh",
    "hooks": {
        "guard": "--cfg capy_verif",
        "enable": "RUSTFLAGS='--cfg capy_verif' via /verif/harness/.cargo/config.toml; the harness workspace builds /repo's crates and the CLI (crates/capy/src/main.rs) with the cfg on",
        "baseline_off_cmd": "cd /repo && cargo test --workspace --no-fail-fast --offline",
        "source_commits": m.HOOK_COMMITS,
        "add_only": True,
    },
    "engines": m.ENGINES,
    "checks": checks,
    "notes": m.NOTES,
    "not_applicable": na,
}
json.dump(manifest, open('/verif/MANIFEST.json', 'w'), indent=1)
print(f"{len(checks)} checks, {len(na)} not_applicable")
