"""Program model of the Capy fragment used by the E-prog checks: types, expressions, statements,
declarations and the printer. Every expression node carries its static type (`ty`); conversions
the language performs implicitly are explicit `Coerce` nodes (printed as nothing)."""

# ------------------------------------------------------------------------------------------------
# types


class Ty:
    def __eq__(self, o):
        return type(self) is type(o) and self.key() == o.key()

    def __hash__(self):
        return hash((type(self).__name__, self.key()))

    def __repr__(self):
        return self.src()


class Int(Ty):
    def __init__(self, bits, signed, name=None):
        self.bits, self.signed = bits, signed
        self.name = name or (("i" if signed else "u") + str(bits))

    def key(self):
        return self.name

    def src(self):
        return self.name

    @property
    def min(self):
        return -(1 << (self.bits - 1)) if self.signed else 0

    @property
    def max(self):
        return (1 << (self.bits - 1)) - 1 if self.signed else (1 << self.bits) - 1

    def wrap(self, v):
        v &= (1 << self.bits) - 1
        if self.signed and v >> (self.bits - 1):
            v -= 1 << self.bits
        return v


class Bool(Ty):
    def key(self):
        return "bool"

    def src(self):
        return "bool"


class Char(Ty):
    def key(self):
        return "char"

    def src(self):
        return "char"


class Void(Ty):
    def key(self):
        return "void"

    def src(self):
        return "void"


class Str(Ty):
    def key(self):
        return "str"

    def src(self):
        return "str"


class Array(Ty):
    def __init__(self, n, elem):
        self.n, self.elem = n, elem

    def key(self):
        return (self.n, self.elem)

    def src(self):
        return f"[{self.n}]{self.elem.src()}"


class Slice(Ty):
    def __init__(self, elem):
        self.elem = elem

    def key(self):
        return self.elem

    def src(self):
        return f"[]{self.elem.src()}"


class Struct(Ty):
    def __init__(self, name, fields):
        self.name, self.fields = name, fields  # [(fname, ty)]

    def key(self):
        return self.name

    def src(self):
        return self.name

    def decl(self):
        return "struct { " + ", ".join(f"{n}: {t.src()}" for n, t in self.fields) + " }"

    def field(self, n):
        return dict(self.fields)[n]


class Enum(Ty):
    def __init__(self, name, variants):
        self.name, self.variants = name, variants  # [(vname, payload_ty or None, discriminant or None)]

    def key(self):
        return self.name

    def src(self):
        return self.name

    def decl(self):
        parts = []
        for n, p, d in self.variants:
            s = n
            if p is not None:
                s += ": " + p.src()
            if d is not None:
                s += f" | {d}"
            parts.append(s)
        return "enum { " + ", ".join(parts) + " }"


class VariantTy(Ty):
    """the type `E.V` of one variant"""
    def __init__(self, enum, idx):
        self.enum, self.idx = enum, idx

    def key(self):
        return (self.enum.name, self.idx)

    def src(self):
        return f"{self.enum.name}.{self.enum.variants[self.idx][0]}"

    @property
    def payload(self):
        return self.enum.variants[self.idx][1]


class Opt(Ty):
    def __init__(self, inner):
        self.inner = inner

    def key(self):
        return self.inner

    def src(self):
        return "?" + self.inner.src()


class ErrU(Ty):
    def __init__(self, err, ok):
        self.err, self.ok = err, ok

    def key(self):
        return (self.err, self.ok)

    def src(self):
        return f"{self.err.src()}!{self.ok.src()}"


class Ptr(Ty):
    def __init__(self, mut, inner):
        self.mut, self.inner = mut, inner

    def key(self):
        return (self.mut, self.inner)

    def src(self):
        return ("^mut " if self.mut else "^") + self.inner.src()


class Distinct(Ty):
    def __init__(self, name, inner):
        self.name, self.inner = name, inner

    def key(self):
        return self.name

    def src(self):
        return self.name

    def decl(self):
        return "distinct " + self.inner.src()


class Fn(Ty):
    def __init__(self, params, ret):
        self.params, self.ret = params, ret

    def key(self):
        return (tuple(self.params), self.ret)

    def src(self):
        ps = ", ".join(f"p{i}: {t.src()}" for i, t in enumerate(self.params))
        return f"({ps}) -> {self.ret.src()}"


I8, I16, I32, I64, I128 = (Int(b, True) for b in (8, 16, 32, 64, 128))
U8, U16, U32, U64, U128 = (Int(b, False) for b in (8, 16, 32, 64, 128))
ISIZE, USIZE = Int(64, True, "isize"), Int(64, False, "usize")
INTS = [I8, I16, I32, I64, I128, U8, U16, U32, U64, U128, ISIZE, USIZE]
BOOL, CHAR, VOID, STR = Bool(), Char(), Void(), Str()


def is_scalar(t):
    return isinstance(t, (Int, Bool, Char))


def strip_distinct(t):
    while isinstance(t, Distinct):
        t = t.inner
    return t


# ------------------------------------------------------------------------------------------------
# expressions


class E:
    pass


def _cls(name, fields):
    def __init__(self, *args):
        assert len(args) == len(fields), (name, args)
        for f, a in zip(fields, args):
            setattr(self, f, a)
    return type(name, (E,), {"__init__": __init__, "_fields": fields})


Lit = _cls("Lit", ["ty", "v"])                      # int / bool / char value
Var = _cls("Var", ["name", "ty"])
Bin = _cls("Bin", ["op", "l", "r", "ty"])
Un = _cls("Un", ["op", "e", "ty"])
Cast = _cls("Cast", ["ty", "e"])
ArrLit = _cls("ArrLit", ["ty", "elems"])
StructLit = _cls("StructLit", ["ty", "fields"])       # fields: [(name, expr)]
Field = _cls("Field", ["e", "name", "ty"])            # auto-derefs pointers
Index = _cls("Index", ["e", "i", "ty"])               # arrays, slices, pointers to arrays
Call = _cls("Call", ["fn", "args", "ty"])             # fn: name of a global function
CallPtr = _cls("CallPtr", ["f", "args", "ty"])        # f: expression of Fn type
IfE = _cls("IfE", ["c", "t", "f", "ty"])              # t, f: expressions
VariantLit = _cls("VariantLit", ["ty", "payload"])    # ty: VariantTy
Nil = _cls("Nil", ["ty"])                             # ty: Opt
Coerce = _cls("Coerce", ["e", "ty"])                  # implicit conversion e.ty -> ty (printed as e)
Unwrap = _cls("Unwrap", ["e", "variant", "ty"])       # variant: a Ty naming the requested "true" type, or None (optionals)
IsVariant = _cls("IsVariant", ["e", "variant", "ty"])
Try = _cls("Try", ["e", "ty"])
SwitchE = _cls("SwitchE", ["e", "arg", "arms", "ty"])  # arms: [(pattern, expr)], pattern: Ty | VariantTy | 'default' | 'nil'
AddrOf = _cls("AddrOf", ["mut", "e", "ty"])
Deref = _cls("Deref", ["e", "ty"])
Len = _cls("Len", ["e", "ty"])
BlockE = _cls("BlockE", ["label", "stmts", "tail", "ty"])
FnRef = _cls("FnRef", ["name", "ty"])
LambdaE = _cls("LambdaE", ["params", "ret", "body", "tail", "ty"])  # params [(name, ty)]
Comptime = _cls("Comptime", ["e", "ty"])              # comptime { e }
Raw = _cls("Raw", ["src", "ty"])                      # verbatim source (used by specialised checks)

# statements


class S:
    pass


def _scls(name, fields):
    def __init__(self, *args):
        assert len(args) == len(fields), (name, args)
        for f, a in zip(fields, args):
            setattr(self, f, a)
    return type(name, (S,), {"__init__": __init__, "_fields": fields})


Let = _scls("Let", ["name", "ty", "mut", "init"])     # init None => default value
Assign = _scls("Assign", ["target", "op", "e"])       # op None or '+', '-', ...
Print = _scls("Print", ["e"])                          # scalar
PutS = _scls("PutS", ["text"])
ExprS = _scls("ExprS", ["e"])
If = _scls("If", ["c", "t", "f"])                      # f may be None
While = _scls("While", ["label", "c", "body"])
Loop = _scls("Loop", ["label", "body"])
Block = _scls("Block", ["label", "body"])
Break = _scls("Break", ["label", "value"])
Continue = _scls("Continue", ["label"])
Return = _scls("Return", ["value"])
Defer = _scls("Defer", ["stmt"])                       # stmt: PutS / Print / ExprS
SwitchS = _scls("SwitchS", ["e", "arg", "arms"])       # arms: [(pattern, [stmts])]


class FnDecl:
    def __init__(self, name, params, ret, body, tail):
        self.name, self.params, self.ret, self.body, self.tail = name, params, ret, body, tail

    @property
    def ty(self):
        return Fn([t for _, t in self.params], self.ret)


class Program:
    def __init__(self):
        self.types = []     # Struct / Enum / Distinct in declaration order
        self.consts = []    # (name, ty, Lit)
        self.fns = []       # FnDecl ; the one named `main` is the entry point
        self.externs = []   # raw source lines

    def fn(self, name):
        for f in self.fns:
            if f.name == name:
                return f
        raise KeyError(name)


# ------------------------------------------------------------------------------------------------
# printer

PRELUDE = """printf :: (fmt: str, n: i64) -> i32 extern;
printfu :: (fmt: str, n: u64) -> i32 extern #link_name("printf");
puts :: (s: str) -> i32 extern;
putchar :: (c: i32) -> i32 extern;
"""

PRELUDE_PLAIN = """printf :: (fmt: str, n: i64) -> i32 extern;
puts :: (s: str) -> i32 extern;
putchar :: (c: i32) -> i32 extern;
"""

BINPREC = {"||": 1, "&&": 2, "<": 3, "<=": 3, ">": 3, ">=": 3, "==": 3, "!=": 3, "+": 4, "-": 4, "|": 4, "~": 4,
           "*": 5, "/": 5, "%": 5, "&": 5, "<<": 5, ">>": 5}


def lit_src(ty, v):
    t = strip_distinct(ty)
    if isinstance(t, Bool):
        return "true" if v else "false"
    if isinstance(t, Char):
        return f"char.(u8.({v}))"
    if v < 0:
        return f"{ty.src()}.(-{-v})"
    return f"{ty.src()}.({v})"


def pattern_src(p):
    if p == "default":
        return "_"
    if p == "nil":
        return "nil"
    if isinstance(p, VariantTy):
        return "." + p.enum.variants[p.idx][0]
    return p.src()


def esrc(e):
    """expression source; every compound sub-expression is parenthesised, so precedence never matters"""
    k = type(e).__name__
    if k == "Lit":
        return lit_src(e.ty, e.v)
    if k == "Var":
        return e.name
    if k == "FnRef":
        return e.name
    if k == "Bin":
        return f"({esrc(e.l)} {e.op} {esrc(e.r)})"
    if k == "Un":
        inner = esrc(e.e)
        # a prefix operator binds tighter than the postfix deref: `!p^` is `(!p)^`
        if type(e.e).__name__ == "Deref" or inner.endswith("^"):
            inner = f"({inner})"
        return f"({e.op}{inner})"
    if k == "Cast":
        return f"{e.ty.src()}.({esrc(e.e)})"
    if k == "ArrLit":
        return f"{e.ty.elem.src()}.[{', '.join(esrc(x) for x in e.elems)}]"
    if k == "StructLit":
        return f"{e.ty.src()}.{{ {', '.join(f'{n} = {esrc(x)}' for n, x in e.fields)} }}"
    if k == "Field":
        return f"{esrc_post(e.e)}.{e.name}"
    if k == "Index":
        return f"{esrc_post(e.e)}[{esrc(e.i)}]"
    if k == "Call":
        return f"{e.fn}({', '.join(esrc(a) for a in e.args)})"
    if k == "CallPtr":
        return f"{esrc_post(e.f)}({', '.join(esrc(a) for a in e.args)})"
    if k == "IfE":
        return f"(if {esrc(e.c)} {{ {esrc(e.t)} }} else {{ {esrc(e.f)} }})"
    if k == "VariantLit":
        if e.payload is None:
            return e.ty.src()
        return f"{e.ty.src()}.({esrc(e.payload)})"
    if k == "Nil":
        return "nil"
    if k == "Coerce":
        return esrc(e.e)
    if k == "Unwrap":
        if e.variant is None:
            return f"#unwrap({esrc(e.e)})"
        return f"#unwrap({esrc(e.e)}, {pattern_src_full(e.variant)})"
    if k == "IsVariant":
        return f"#is_variant({esrc(e.e)}, {pattern_src_full(e.variant)})"
    if k == "Try":
        return f"{esrc_post(e.e)}.try"
    if k == "SwitchE":
        arms = " ".join(f"{pattern_src(p)} => {esrc(b)}," for p, b in e.arms)
        return f"(switch {e.arg} in {esrc(e.e)} {{ {arms} }})"
    if k == "AddrOf":
        return f"(^{'mut ' if e.mut else ''}{esrc_post(e.e)})"
    if k == "Deref":
        return f"{esrc_post(e.e)}^"
    if k == "Len":
        return f"{esrc_post(e.e)}.len"
    if k == "BlockE":
        lab = f"`{e.label}: " if e.label else ""
        body = " ".join(ssrc(s, 0).strip() for s in e.stmts)
        return f"{lab}{{ {body} {esrc(e.tail) if e.tail is not None else ''} }}"
    if k == "Comptime":
        return f"comptime {{ {esrc(e.e)} }}"
    if k == "Raw":
        return e.src
    if k == "LambdaE":
        ps = ", ".join(f"{n}: {t.src()}" for n, t in e.params)
        body = " ".join(ssrc(s, 0).strip() for s in e.body)
        return f"({ps}) -> {e.ret.src()} {{ {body} {esrc(e.tail) if e.tail is not None else ''} }}"
    raise TypeError(k)


def pattern_src_full(p):
    if p == "nil":
        return "nil"
    return p.src()


def esrc_post(e):
    """operand of a postfix operator"""
    s = esrc(e)
    k = type(e).__name__
    if k in ("Var", "Field", "Index", "Call", "CallPtr", "Deref", "Len", "FnRef") or s.startswith("("):
        return s
    if k == "Coerce":
        return esrc_post(e.e)
    return f"({s})"


def print_src(e):
    """statements printing a scalar value as decimal (two halves for 128-bit)"""
    t = strip_distinct(e.ty)
    s = esrc(e)
    if isinstance(e.ty, Distinct):
        s = f"{t.src()}.({s})"
    if isinstance(t, Int) and t.bits == 128:
        return f'printf("%ld ", i64.({s} >> 64)); printf("%ld\\n", i64.(u64.({s})));'
    return f'printf("%ld\\n", i64.({s}));'


def ssrc(s, ind=1):
    pad = "    " * ind
    k = type(s).__name__
    if k == "Let":
        op = "=" if s.mut else ":"
        if s.init is None:
            return f"{pad}{s.name} : {s.ty.src()};\n"
        return f"{pad}{s.name} : {s.ty.src()} {op} {esrc(s.init)};\n"
    if k == "Assign":
        return f"{pad}{esrc(s.target)} {s.op or ''}= {esrc(s.e)};\n"
    if k == "Print":
        return f"{pad}{print_src(s.e)}\n"
    if k == "PutS":
        return f'{pad}puts("{s.text}");\n'
    if k == "ExprS":
        return f"{pad}{esrc(s.e)};\n"
    if k == "If":
        out = f"{pad}if {esrc(s.c)} {{\n" + "".join(ssrc(x, ind + 1) for x in s.t) + f"{pad}}}"
        if s.f is not None:
            out += " else {\n" + "".join(ssrc(x, ind + 1) for x in s.f) + f"{pad}}}"
        # the `;` keeps a following statement that starts with `(` from being parsed as a call
        return out + ";\n"
    if k == "While":
        lab = f"`{s.label}: " if s.label else ""
        return f"{pad}{lab}while {esrc(s.c)} {{\n" + "".join(ssrc(x, ind + 1) for x in s.body) + f"{pad}}};\n"
    if k == "Loop":
        lab = f"`{s.label}: " if s.label else ""
        return f"{pad}{lab}loop {{\n" + "".join(ssrc(x, ind + 1) for x in s.body) + f"{pad}}};\n"
    if k == "Block":
        lab = f"`{s.label}: " if s.label else ""
        return f"{pad}{lab}{{\n" + "".join(ssrc(x, ind + 1) for x in s.body) + f"{pad}}};\n"
    if k == "Break":
        return f"{pad}break{' `' + s.label if s.label else ''}{' ' + esrc(s.value) if s.value is not None else ''};\n"
    if k == "Continue":
        return f"{pad}continue{' `' + s.label if s.label else ''};\n"
    if k == "Return":
        return f"{pad}return{' ' + esrc(s.value) if s.value is not None else ''};\n"
    if k == "Defer":
        return f"{pad}defer {ssrc(s.stmt, 0).strip()}\n" if type(s.stmt).__name__ != "Block" else \
            f"{pad}defer {{\n" + "".join(ssrc(x, ind + 1) for x in s.stmt.body) + f"{pad}}};\n"
    if k == "SwitchS":
        out = f"{pad}switch {s.arg} in {esrc(s.e)} {{\n"
        for p, body in s.arms:
            out += f"{pad}    {pattern_src(p)} => {{\n" + "".join(ssrc(x, ind + 2) for x in body) + f"{pad}    }},\n"
        return out + f"{pad}}};\n"
    raise TypeError(k)


def fn_src(f):
    ps = ", ".join(f"{n}: {t.src()}" for n, t in f.params)
    if getattr(f, "variadic", False):
        # the last parameter (a slice type in the model) is written `name: ...T`
        n, t = f.params[-1]
        ps = ", ".join([f"{n_}: {t_.src()}" for n_, t_ in f.params[:-1]] + [f"{n}: ...{t.elem.src()}"])
    ret = "" if isinstance(f.ret, Void) else f" -> {f.ret.src()}"
    out = f"{f.name} :: ({ps}){ret} {{\n" + "".join(ssrc(s) for s in f.body)
    if f.tail is not None:
        out += f"    {esrc(f.tail)}\n"
    return out + "}\n"


def program_src(p, prelude=PRELUDE_PLAIN):
    out = prelude + "\n"
    for t in p.types:
        out += f"{t.name} :: {t.decl()};\n"
    for name, ty, lit in p.consts:
        plain = ("true" if lit.v else "false") if isinstance(ty, Bool) else str(lit.v)
        out += f"{name} : {ty.src()} : {plain};\n"
    for line in p.externs:
        out += line + "\n"
    out += "\n"
    for f in p.fns:
        out += fn_src(f) + "\n"
    return out
