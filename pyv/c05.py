"""C05 — names resolve to the innermost visible binding; scopes end where they end.

Programs over the identifier pool {a, b, c, d, u8, f32} (two of them are also built-in type names) with every binding kind the statement lists: block
locals (`::` / `:=`), switch-arm arguments, lambda parameters, comptime parameters, globals; nested
blocks, switches, lambdas and comptime blocks; heavy shadowing and re-use right after a scope
ended. Every binding holds a unique integer tag; every use prints the value it sees.
Oracle: a small resolver implementing the stated lookup order; at most one use per program is
undefined, in which case the compiler must report an undefined name on that line."""
import json, re, shutil

from hypothesis import strategies as st

from . import runner, core
from .core import Fail, h64

POOL = ["a", "b", "c", "d", "u8", "f32"]
BUILTIN_NAMES = {"u8", "f32"}     # unbound, these denote the built-in types (the last step of the lookup order)
PRELUDE = 'printf :: (fmt: str, n: i64) -> i32 extern;\n'


class Gen:
    def __init__(self, draw):
        self.draw = draw
        self.tag = 100
        self.uid = 0
        self.nfn = 0

    def int(self, lo, hi):
        return self.draw(st.integers(lo, hi))

    def name(self):
        return POOL[self.int(0, len(POOL) - 1)]

    def newtag(self):
        self.tag += 1
        return self.tag

    def stmts(self, depth, n_max=5, in_comptime=False):
        out = []
        for _ in range(self.int(1, n_max)):
            k = self.int(0, 13)
            if k <= 3:
                out.append({"k": "use", "name": self.name(), "id": self._uid()})
            elif k <= 6:
                out.append({"k": "bind", "name": self.name(), "mut": bool(self.int(0, 1)), "tag": self.newtag()})
            elif k <= 8 and depth < 3:
                out.append({"k": "block", "body": self.stmts(depth + 1, 4)})
                # a use right after the scope ended
                if self.int(0, 1):
                    out.append({"k": "use", "name": self.name(), "id": self._uid()})
            elif k == 9 and depth < 3:
                nm = self.name()
                out.append({"k": "switch", "arg": nm, "tag": self.newtag(), "some": bool(self.int(0, 3)), "body_some": self.stmts(depth + 1, 3), "body_nil": self.stmts(depth + 1, 2),
                            "default": bool(self.int(0, 1))})
                if self.int(0, 2):
                    out.append({"k": "use", "name": nm, "id": self._uid()})
            elif k == 10 and depth < 3:
                self.nfn += 1
                params = [self.name() for _ in range(self.int(0, 2))]
                params = list(dict.fromkeys(params))
                out.append({"k": "lambda", "fn": f"lam{self.nfn}", "params": params, "tags": [self.newtag() for _ in params], "body": self.stmts(depth + 1, 3)})
            elif k == 11:
                out.append({"k": "ctuse", "name": self.name(), "id": self._uid()})
            elif k == 12 and depth < 3:
                self.nfn += 1
                nm = self.name()
                g = {"k": "generic", "fn": f"gen{self.nfn}", "param": nm, "tag": self.newtag(), "body": self.stmts(depth + 1, 2)}
                if self.int(0, 1):
                    # a run-time parameter before the comptime one
                    rt = self.name()
                    if rt != nm:
                        g["rt_param"], g["rt_tag"] = rt, self.newtag()
                        g["body"] = [{"k": "use", "name": rt, "id": self._uid()}] + g["body"]
                # the parameters are used at least once (before anything in the body can shadow them)
                g["body"] = [{"k": "use", "name": nm, "id": self._uid()}] + g["body"]
                out.append(g)
            else:
                out.append({"k": "use", "name": self.name(), "id": self._uid()})
        return out

    def _uid(self):
        self.uid += 1
        return self.uid


@st.composite
def cases(draw):
    g = Gen(draw)
    globs = {}
    for nm in POOL:
        if g.int(0, 2) == 0:
            globs[nm] = g.newtag()
    body = g.stmts(1, 6)
    return {"globals": globs, "body": body}


def strategy(profile):
    return cases()


# ------------------------------------------------------------------------------------------------
# resolver (the oracle): returns (events, undefined uses); events = list of printed tags

class Undefined(Exception):
    pass


def resolve(name, scopes, params, globs):
    """scopes: innermost-last list of dicts of block locals / switch args (up to the enclosing
    lambda / comptime boundary); params: parameters of the enclosing lambda; globs: file globals"""
    for s in reversed(scopes):
        if name in s:
            return s[name]
    if name in params:
        return params[name]
    if name in globs:
        return globs[name]
    if name in BUILTIN_NAMES:
        return "nil"   # denotes the built-in type: not printable as a number, such uses are dropped from the text
    return None


def run_oracle(case, skip=frozenset()):
    out = []
    undefined = []
    globs = case["globals"]

    def block(stmts, scopes, params, live):
        scopes = scopes + [{}]
        for s in stmts:
            k = s["k"]
            if s.get("id") in skip:
                continue
            if k == "use":
                v = resolve(s["name"], scopes, params, globs)
                if v is None:
                    undefined.append(s["id"])
                elif live and v != "nil":
                    out.append(v)
            elif k == "ctuse":
                # inside a comptime block nothing local is visible: only globals
                v = globs.get(s["name"])
                if v is None and s["name"] in BUILTIN_NAMES:
                    pass
                elif v is None:
                    undefined.append(s["id"])
                elif live:
                    out.append(v)
            elif k == "bind":
                scopes[-1][s["name"]] = s["tag"]
            elif k == "block":
                block(s["body"], scopes, params, live)
            elif k == "switch":
                # the argument is visible inside the arms only
                block(s["body_some"], scopes + [{s["arg"]: s["tag"]}], params, live and s["some"])
                block(s["body_nil"], scopes + [{s["arg"]: "nil"}], params, live and not s["some"])
            elif k == "lambda":
                # a lambda does not capture: fresh scopes, its own parameters
                block(s["body"], [], dict(zip(s["params"], s["tags"])), live)
            elif k == "generic":
                block(s["body"], [], gparams(s), live)
    block(case["body"], [], {}, True)
    return out, undefined


def gparams(s):
    ps = {s["param"]: s["tag"]}
    if "rt_param" in s:
        ps[s["rt_param"]] = s["rt_tag"]
    return ps


def uses_nil(case):
    """true if some use would see a nil-typed switch argument (the generator cannot print that)"""
    bad = []

    def block(stmts, scopes, params):
        scopes = scopes + [{}]
        for s in stmts:
            k = s["k"]
            if k == "use":
                if resolve(s["name"], scopes, params, case["globals"]) == "nil":
                    bad.append(s["id"])
            elif k == "ctuse":
                if s["name"] not in case["globals"] and s["name"] in BUILTIN_NAMES:
                    bad.append(s["id"])
            elif k == "bind":
                scopes[-1][s["name"]] = s["tag"]
            elif k == "block":
                block(s["body"], scopes, params)
            elif k == "switch":
                block(s["body_some"], scopes + [{s["arg"]: s["tag"]}], params)
                block(s["body_nil"], scopes + [{s["arg"]: "nil"}], params)
            elif k == "lambda":
                block(s["body"], [], dict(zip(s["params"], s["tags"])))
            elif k == "generic":
                block(s["body"], [], gparams(s))
    block(case["body"], [], {})
    return bad


# ------------------------------------------------------------------------------------------------
# printer (records the source line of every use)

def gsig(s):
    rt = f'{s["rt_param"]}: i64, ' if "rt_param" in s else ""
    return f'{rt}comptime {s["param"]}: i64'


def build(case, drop_uses=frozenset()):
    lines = [PRELUDE.rstrip("\n")]
    for nm, tag in case["globals"].items():
        lines.append(f"{nm} : i64 : {tag};")
    fns = []
    use_line = {}
    cnt = [0]

    def emit(stmts, ind, sink):
        pad = "    " * ind
        for s in stmts:
            k = s["k"]
            if k == "use":
                if s["id"] in drop_uses:
                    continue
                sink.append((f'{pad}printf("%ld\\n", {s["name"]});', s["id"]))
            elif k == "ctuse":
                if s["id"] in drop_uses:
                    continue
                sink.append((f'{pad}printf("%ld\\n", comptime {{ {s["name"]} }});', s["id"]))
            elif k == "bind":
                sink.append((f'{pad}{s["name"]} : i64 {"=" if s["mut"] else ":"} {s["tag"]};', None))
            elif k == "block":
                sink.append((pad + "{", None))
                emit(s["body"], ind + 1, sink)
                sink.append((pad + "};", None))
            elif k == "switch":
                cnt[0] += 1
                o = f"opt{cnt[0]}"
                sink.append((f'{pad}{o} : ?i64 = {s["tag"] if s["some"] else "nil"};', None))
                sink.append((f'{pad}switch {s["arg"]} in {o} {{', None))
                sink.append((f"{pad}    i64 => {{", None))
                emit(s["body_some"], ind + 2, sink)
                sink.append((f"{pad}    }},", None))
                sink.append((f"{pad}    {'_' if s.get('default') else 'nil'} => {{", None))
                emit(s["body_nil"], ind + 2, sink)
                sink.append((f"{pad}    }},", None))
                sink.append((pad + "};", None))
            elif k == "lambda":
                ps = ", ".join(f"{p}: i64" for p in s["params"])
                sink.append((f'{pad}{s["fn"]} :: ({ps}) {{', None))
                emit(s["body"], ind + 1, sink)
                sink.append((pad + "};", None))
                sink.append((f'{pad}{s["fn"]}({", ".join(str(t) for t in s["tags"])});', None))
            elif k == "generic":
                if hoist_generics() and not case.get("force_local_generics"):
                    # listed open finding: a generic function defined as a *local* crashes the compiler;
                    # the function is emitted as a global instead (same visibility rules: own parameter + globals)
                    g = []
                    g.append((f'{s["fn"]} :: ({gsig(s)}) {{', None))
                    emit(s["body"], 1, g)
                    g.append(("};", None))
                    fns.append(g)
                else:
                    sink.append((f'{pad}{s["fn"]} :: ({gsig(s)}) {{', None))
                    emit(s["body"], ind + 1, sink)
                    sink.append((pad + "};", None))
                sink.append((f'{pad}{s["fn"]}({str(s["rt_tag"]) + ", " if "rt_param" in s else ""}{s["tag"]});', None))
    sink = []
    emit(case["body"], 1, sink)
    for g in fns:
        for text, uid in g:
            lines.append(text)
            if uid is not None:
                use_line[uid] = len(lines)
    lines.append("main :: () {")
    for text, uid in sink:
        lines.append(text)
        if uid is not None:
            use_line[uid] = len(lines)
    lines.append("}")
    return "\n".join(lines) + "\n", use_line


CT_IN_GENERIC_KEY = "crash:crates/hir/src/body.rs:not yet implemented"


def ct_in_generic(case):
    """ids of comptime-block uses inside the body of a generic function"""
    ids = []

    def walk(stmts, inside):
        for s in stmts:
            if s["k"] == "ctuse" and inside:
                ids.append(s["id"])
            for key in ("body", "body_some", "body_nil"):
                if key in s:
                    walk(s[key], inside or s["k"] == "generic")
    walk(case["body"], False)
    return ids


LOCAL_GENERIC_KEY = "crash:crates/codegen/src/compiler/functions.rs:assertion failed: self.tys.try_naive(loc.wrap(), self.world_bodies).is_ok()"
_hoist = []


def hoist_generics():
    if not _hoist:
        _hoist.append(any(f["key"] == LOCAL_GENERIC_KEY and f.get("status") == "open" for f in core.load_findings("C05")))
    return _hoist[0]


ANYERR = re.compile(r"^error: ([^\n]*)\n\s*--> at main\.capy:(\d+):\d+", re.M)
UNDEF = re.compile(r"error: undefined reference to `(\w+)`\s*\n\s*--> at main\.capy:(\d+):(\d+)")


def shadow_depth(case):
    """non-triviality: >= 2 bindings of one name visible in different scopes, and a use after a scope that bound the same name ended"""
    names_bound = {}
    reuse_after = [False]

    def walk(stmts, depth):
        ended = set()
        for s in stmts:
            k = s["k"]
            if k == "bind":
                names_bound.setdefault(s["name"], set()).add(depth)
            elif k == "block":
                inner = walk(s["body"], depth + 1)
                ended |= inner
            elif k == "switch":
                names_bound.setdefault(s["arg"], set()).add(depth + 1)
                walk(s["body_some"], depth + 1)
                walk(s["body_nil"], depth + 1)
                ended.add(s["arg"])
            elif k in ("use", "ctuse") and s["name"] in ended:
                reuse_after[0] = True
            elif k in ("lambda", "generic"):
                walk(s["body"], depth + 1)
        return {s["name"] for s in stmts if s["k"] == "bind"} | ended
    walk(case["body"], 0)
    for nm in case["globals"]:
        names_bound.setdefault(nm, set()).add(-1)
    return any(len(v) >= 2 for v in names_bound.values()) and reuse_after[0]


def check(case, stats, scratch, profile):
    nil_uses = set(uses_nil(case))
    skip = set()
    if not case.get("force_ct_in_generic") and any(f["key"] == CT_IN_GENERIC_KEY and f.get("status") == "open" for f in core.load_findings("C05")):
        # listed open finding: a comptime block inside a generic function hits a todo!() in the compiler
        skip = set(ct_in_generic(case))
    expected, undefined = run_oracle(case, frozenset(skip))
    undefined = [u for u in undefined if u not in nil_uses]
    # keep at most one undefined use: drop the others from the program text
    drop = set(nil_uses) | set(undefined[1:]) | skip
    undefined = undefined[:1]
    src, use_line = build(case, drop_uses=frozenset(drop))
    stats.evaluations += 1
    if shadow_depth(case):
        stats.nontrivial.add(h64(src))
    stats.cls("with-undefined" if undefined else "all-defined")
    for k in ("switch", "lambda", "generic", "ctuse", "block"):
        if f'"k": "{k}"' in json.dumps(case):
            stats.cls("has." + k)
    replay = {"case": case}
    o = runner.run_case(scratch, {"main.capy": src})
    if o.kind in ("timeout", "exe-timeout"):
        stats.inconclusive += 1
        return
    if o.kind == "crash":
        raise Fail(o.crash_key, f"compiler crashed\n{o.compiler_out[-1200:]}\n--- program ---\n{src}", replay)
    if undefined:
        want_line = use_line[undefined[0]]
        if o.kind != "rejected":
            raise Fail("C05:undefined-accepted", f"the use on line {want_line} has no visible binding but the program is accepted ({o.brief()})\n--- program ---\n{src}", replay)
        # "reported as undefined": an error diagnostic located on the line of that use (the wording is the compiler's
        # business), and no error anywhere else
        located = [(m.group(1), int(m.group(2))) for m in ANYERR.finditer(o.compiler_out)]
        on_line = [msg for msg, ln in located if ln == want_line]
        elsewhere = [(msg, ln) for msg, ln in located if ln != want_line]
        if not on_line or elsewhere:
            raise Fail("C05:wrong-diagnostics", f"expected the undefined use on line {want_line} to be reported there and nothing else; errors on that line: {on_line[:2]}, elsewhere: {elsewhere[:3]}\n{o.compiler_out[-1200:]}\n--- program ---\n{src}", replay)
        return
    if o.kind == "rejected":
        und = sorted({int(m.group(2)) for m in UNDEF.finditer(o.compiler_out)})
        key = "C05:spurious-undefined" if und else "C05:rejected:" + runner.normalise_msg(o.errors[0] if o.errors else "?")[:80]
        raise Fail(key, f"every use has a visible binding, but the program is rejected (undefined reported on lines {und})\n{o.compiler_out[-1500:]}\n--- program ---\n{src}", replay)
    if o.kind != "ran" or o.signal is not None:
        raise Fail(f"C05:{o.kind}", f"{o.brief()}\n--- program ---\n{src}", replay)
    got = o.stdout.decode("utf-8", "replace")
    exp = "".join(f"{t}\n" for t in expected)
    if got != exp:
        raise Fail("C05:wrong-binding", f"a use saw the wrong binding: expected tags {expected}, got {got.split()}\n--- program ---\n{src}", replay)
    if shadow_depth(case):
        stats.sample({"program": src, "tags": expected})


def replay_payload(payload, scratch):
    st_ = core.Stats()
    try:
        check(payload["case"], st_, scratch, "replay")
    except Fail as f:
        return f.key
    return None


RULE = ("programs over the identifier pool {a,b,c,d,u8,f32} (the last two are built-in type names that bindings may shadow): globals, block locals (:: and :=), switch-arm arguments, lambda parameters, comptime parameters, uses inside comptime blocks, "
        "nested to depth 3 with a use right after most scope ends; unique integer tags. Non-trivial = some name has bindings in >= 2 scopes and there is a use after a scope that "
        "bound the same name ended; distinct by program text.")


def run(ctx):
    if ctx.replay:
        scratch = core.make_scratch("C05", "replay")
        payload = json.load(open(ctx.replay))
        ctx.evaluations = 1
        k = replay_payload(payload, scratch)
        if k:
            ctx.violations[k] = ("replayed case still fails", payload)
        shutil.rmtree(scratch, ignore_errors=True)
        return ctx.finish(RULE, False, [])
    total = 30000 if ctx.thorough else 1280
    infra = core.hypothesis_search(ctx, "pyv.c05", total)
    scratch = core.make_scratch("C05", "kf")
    rc = ctx.finish(RULE, False, [
        "lambdas, generic functions and comptime blocks do not capture locals: inside them only their parameters and the globals are visible",
        "a use that would see a nil-typed switch argument is not generated (it could not be printed)",
    ], replayer=lambda p: replay_payload(p, scratch), min_nontrivial=50 if not ctx.collect_all() else 0)
    shutil.rmtree(scratch, ignore_errors=True)
    return 2 if infra and rc == 0 else rc
