"""C28 — imports resolve to the right files and each file is compiled once.

A generated directory tree: a working directory with up to 6 source files in up to 3 directories,
a module directory (one good module with a helper file, one without mod.capy, none for a third
name), a directory outside both, and non-.capy files. Every file has a random list of imports:
other files (relative paths in several spellings: plain, `./`, up-and-back, backslashes; cycles and
self-imports included), missing files, files without `.capy`, files outside the working directory,
good and bad `#mod`s. Every file defines the *same* names (`who`, `deep`) with its own identity.

Oracle (a model of the tree): the build is accepted iff no reachable file has a bad import; each
bad import of a reachable file is reported with its own diagnostic kind at its own line, good
imports are never reported; the executable prints `who()` of main's imports and a hash `deep(3)`
that depends on the identity of every file within three import steps. A type error planted in a
file reached through several spellings must be reported exactly once."""
import json, os, re, shutil, subprocess

from hypothesis import strategies as st

from . import runner, core
from .core import Fail, h64

DIRS = ["", "sub", "sub/deep", "lib"]
MASK = (1 << 64) - 1

BAD_KINDS = {
    "missing": "couldn't be found",
    "noext": "capy files must end in `.capy`",
    "outside": "is outside the current working module",
    "mod-nofile": "doesn't contain a `mod.capy` file",
    "mod-missing": "module could not be found",
    "mod-badname": "modules must be alphanumeric",
}


@st.composite
def cases(draw):
    n = draw(st.sampled_from([1, 2, 3, 3, 4, 4, 5, 5, 6, 6]))
    dirs = draw(st.lists(st.sampled_from(DIRS), min_size=1, max_size=3, unique=True))
    files = [{"dir": "", "name": "main.capy"}]
    for i in range(1, n):
        files.append({"dir": dirs[draw(st.integers(0, len(dirs) - 1))], "name": f"f{i}.capy"})
    for f in files:
        imps = []
        for _ in range(draw(st.integers(0, 3))):
            k = draw(st.sampled_from(["file", "file", "file", "file", "missing", "noext", "outside", "outside-prefix", "mod-ok", "mod-nofile", "mod-missing", "mod-badname", "modfile", "file"]))
            imp = {"kind": k, "spelling": draw(st.integers(0, 3))}
            if k == "file":
                imp["target"] = draw(st.integers(0, n - 1))
            elif k == "missing":
                imp["path"] = draw(st.sampled_from(["nothere.capy", "sub/nothere.capy", "../nothere.capy", "lib/x/y.capy"]))
            elif k == "noext":
                imp["path"] = draw(st.sampled_from(["data.txt", "f1", "main", "notes.capy.bak", "sub/f1.cap", "main.capy/", "main.capy/.", "../work/main.capy/", ".capy/x"]))
            elif k == "outside-prefix":
                # a sibling directory whose name *starts with* the name of the working / module directory
                imp["path"] = draw(st.sampled_from(["work2/ext.capy", "mods2/ext.capy", "workshop/ext.capy"]))
            elif k == "mod-badname":
                imp["path"] = draw(st.sampled_from(["al-pha", "../alpha", "alpha/src", "alpha.capy", "al pha", "alpha/"]))
            imps.append(imp)
        f["imports"] = imps
    # most trees are connected: every file is imported by some earlier file (so that all of them are reachable)
    if draw(st.integers(0, 4)) > 0:
        for i in range(1, n):
            parent = draw(st.integers(0, i - 1))
            files[parent]["imports"].insert(draw(st.integers(0, len(files[parent]["imports"]))), {"kind": "file", "spelling": draw(st.integers(0, 3)), "target": i})
    plant = draw(st.integers(0, n - 1)) if n > 1 and draw(st.integers(0, 3)) == 0 else None
    if plant == 0:
        plant = None
    return {"files": files, "plant_error_in": plant}


def strategy(profile):
    return cases()


def rel_spelling(importer_dir, target_rel, spelling, wname):
    """a relative path from importer_dir (relative to the working directory) to target_rel"""
    p = os.path.relpath(os.path.join("/W", target_rel), os.path.join("/W", importer_dir))
    if spelling == 1:
        p = "./" + p
    elif spelling == 2:
        base = os.path.basename(importer_dir) if importer_dir else wname
        p = f"../{base}/{p}"
    elif spelling == 3:
        p = p.replace("/", "\\\\")
    return p


def layout(case, wname="work"):
    """returns ({path relative to the scratch root: text}, model)"""
    files = case["files"]
    out = {}
    ids = {i: 100 + i for i in range(len(files))}
    ALPHA, HELPER = 900, 901
    model = {"edges": {}, "bad": [], "ids": ids}
    for i, f in enumerate(files):
        lines = []
        if i == 0:
            lines.append("printf :: (fmt: str, n: i64) -> i32 extern;")
        edges = []
        for k, imp in enumerate(f["imports"]):
            kind = imp["kind"]
            name = f"imp{k}"
            if kind == "file":
                t = files[imp["target"]]
                p = rel_spelling(f["dir"], os.path.join(t["dir"], t["name"]), imp["spelling"], wname)
                lines.append(f'{name} :: #import("{p}");')
                edges.append((name, ("file", imp["target"])))
            elif kind == "modfile":
                p = rel_spelling(f["dir"], "../mods/alpha/src/helper.capy", imp["spelling"] if imp["spelling"] != 2 else 0, wname)
                lines.append(f'{name} :: #import("{p}");')
                edges.append((name, ("helper", None)))
            elif kind == "mod-ok":
                lines.append(f'{name} :: #mod("alpha");')
                edges.append((name, ("alpha", None)))
            elif kind == "mod-nofile":
                lines.append(f'{name} :: #mod("beta");')
                model["bad"].append((i, len(lines), kind))
            elif kind == "mod-missing":
                lines.append(f'{name} :: #mod("gamma");')
                model["bad"].append((i, len(lines), kind))
            elif kind == "mod-badname":
                lines.append(f'{name} :: #mod("{imp["path"]}");')
                model["bad"].append((i, len(lines), kind))
            elif kind == "outside":
                p = rel_spelling(f["dir"], "../outside/ext.capy", imp["spelling"] if imp["spelling"] != 2 else 0, wname)
                lines.append(f'{name} :: #import("{p}");')
                model["bad"].append((i, len(lines), kind))
            elif kind == "outside-prefix":
                p = rel_spelling(f["dir"], "../" + imp["path"], imp["spelling"] if imp["spelling"] != 2 else 0, wname)
                lines.append(f'{name} :: #import("{p}");')
                model["bad"].append((i, len(lines), "outside"))
            else:
                lines.append(f'{name} :: #import("{imp["path"]}");')
                model["bad"].append((i, len(lines), kind))
        model["edges"][i] = edges
        lines.append(f"who :: () -> i64 {{ {ids[i]} }}")
        terms = "".join(f" + {k + 2} * {name}.deep(n - 1)" for k, (name, _) in enumerate(edges))
        lines.append(f"deep :: (n: i64) -> i64 {{ if n <= 0 {{ return {ids[i]}; }} {ids[i]} * 31{terms} }}")
        if case.get("plant_error_in") == i:
            lines.append("planted :: () -> i64 { bad_planted : i64 = true; bad_planted }")
        if i == 0:
            body = "".join(f'    printf("%ld\\n", {name}.who());\n' for name, _ in edges)
            lines.append("main :: () {\n" + body + '    printf("%ld\\n", deep(3));\n}')
        out[os.path.join(wname, f["dir"], f["name"])] = "\n".join(lines) + "\n"
    out["mods/alpha/src/mod.capy"] = f'h :: #import("helper.capy");\nwho :: () -> i64 {{ {ALPHA} }}\ndeep :: (n: i64) -> i64 {{ if n <= 0 {{ return {ALPHA}; }} {ALPHA} * 31 + 2 * h.deep(n - 1) }}\n'
    out["mods/alpha/src/helper.capy"] = f'who :: () -> i64 {{ {HELPER} }}\ndeep :: (n: i64) -> i64 {{ {HELPER} }}\n'
    out["mods/beta/src/readme.txt"] = "no mod.capy here\n"
    out["outside/ext.capy"] = "who :: () -> i64 { 777 }\ndeep :: (n: i64) -> i64 { 777 }\n"
    for sib in ("work2", "mods2", "workshop"):
        out[f"{sib}/ext.capy"] = "who :: () -> i64 { 778 }\ndeep :: (n: i64) -> i64 { 778 }\n"
    out[os.path.join(wname, "data.txt")] = "not a capy file\n"
    out[os.path.join(wname, "f1")] = "who :: () -> i64 { 1 }\n"
    out[os.path.join(wname, "sub/f1.cap")] = "who :: () -> i64 { 1 }\n"
    out[os.path.join(wname, "notes.capy.bak")] = "x\n"
    return out, model


def wrap(v):
    v &= MASK
    return v - (1 << 64) if v >> 63 else v


def reachable(model):
    seen, todo = {0}, [0]
    while todo:
        i = todo.pop()
        for _, (kind, t) in model["edges"][i]:
            if kind == "file" and t not in seen:
                seen.add(t)
                todo.append(t)
    return seen


def deep(model, node, n):
    kind, i = node
    if kind == "helper":
        return 901
    if kind == "alpha":
        return 900 if n <= 0 else wrap(900 * 31 + 2 * deep(model, ("helper", None), n - 1))
    ident = model["ids"][i]
    if n <= 0:
        return ident
    v = ident * 31
    for k, (_, tgt) in enumerate(model["edges"][i]):
        v += (k + 2) * deep(model, tgt, n - 1)
    return wrap(v)


def who(model, node):
    kind, i = node
    return {"helper": 901, "alpha": 900}.get(kind) or model["ids"][i]


DIAG = re.compile(r"^error: ([^\n]*)\n\s*--> at ([^\n:]+):(\d+):(\d+)", re.M)


def check(case, stats, scratch, profile):
    tree, model = layout(case)
    root = os.path.join(scratch, "t")
    shutil.rmtree(root, ignore_errors=True)
    for rel, text in tree.items():
        p = os.path.join(root, rel)
        os.makedirs(os.path.dirname(p), exist_ok=True)
        with open(p, "w") as f:
            f.write(text)
    W = os.path.join(root, "work")
    # the CLI downloads `core` into a module directory that lacks it (no network here): provide it
    os.symlink(os.path.join(core.MOD_DIR, "core"), os.path.join(root, "mods", "core"))
    try:
        pr = subprocess.run([core.CAPY, "build", "main.capy", "--mod-dir", os.path.join(root, "mods"), "--color", "never"], cwd=W, stdout=subprocess.PIPE, stderr=subprocess.STDOUT, timeout=40)
    except subprocess.TimeoutExpired:
        stats.inconclusive += 1
        shutil.rmtree(root, ignore_errors=True)
        return
    text = runner.clean(pr.stdout.decode("utf-8", "replace"))
    stats.evaluations += 1
    reach = reachable(model)
    bad = [(i, line, kind) for i, line, kind in model["bad"] if i in reach]
    planted = case.get("plant_error_in")
    planted_reached = planted is not None and planted in reach
    files = case["files"]
    desc_tree = "\n".join(f"// {rel}\n{t}" for rel, t in tree.items() if rel.startswith("work/") and rel.endswith(".capy"))
    replay = {"case": case}
    n_edges = sum(len(e) for i, e in model["edges"].items() if i in reach)
    spellings = {imp["spelling"] for i in reach for imp in files[i]["imports"] if imp["kind"] == "file"}
    if n_edges >= 2 and (len(spellings) >= 2 or bad):
        stats.nontrivial.add(h64(json.dumps(case, sort_keys=True)))
    stats.cls("reachable-files.%d" % len(reach))
    for _, _, kind in bad:
        stats.cls("bad." + kind)
    ck = runner.crash_key_of(text)
    if ck or pr.returncode < 0:
        raise Fail(ck or f"crash:signal-{-pr.returncode}", f"compiler crashed\n{text[-1200:]}\n--- tree ---\n{desc_tree}", replay)
    diags = [(m.group(1), m.group(2), int(m.group(3))) for m in DIAG.finditer(text)]

    def file_rel(i):
        return os.path.normpath(os.path.join(files[i]["dir"], files[i]["name"]))
    # every bad import of a reachable file is reported at its own line (the wording is the compiler's business; the
    # kind-specific phrase is only recorded), and no diagnostic sits on the line of a good import
    import_lines = {}
    for i in reach:
        for k_, imp in enumerate(files[i]["imports"]):
            import_lines[(file_rel(i), k_ + 1 + (1 if i == 0 else 0))] = imp["kind"]
    for i, line, kind in bad:
        hits = [d for d in diags if os.path.normpath(d[1]) == file_rel(i) and d[2] == line]
        if not hits:
            raise Fail(f"C28:bad-import-not-reported:{kind}", f"file {file_rel(i)} line {line} holds a bad import ({kind}) but no diagnostic is located there; all: {diags[:6]}\n--- tree ---\n{desc_tree}", replay)
        stats.cls("kind-phrase-present" if any(BAD_KINDS[kind] in d[0] for d in hits) else "kind-phrase-absent")
    bad_lines = {(file_rel(i), line) for i, line, _ in bad}
    for msg, fname, line in diags:
        key = (os.path.normpath(fname), line)
        if key in import_lines and key not in bad_lines:
            raise Fail("C28:good-import-reported", f"diagnostic `{msg}` at {fname}:{line}, the line of a good import\n--- tree ---\n{desc_tree}", replay)
    if planted_reached:
        cnt = sum(1 for msg, fname, line in diags if "expected a value of `i64` but found `bool`" in msg and os.path.normpath(fname) == file_rel(planted))
        if cnt != 1:
            raise Fail("C28:file-diagnosed-%s" % ("twice" if cnt > 1 else "never"), f"the type error planted in {file_rel(planted)} (reachable) is reported {cnt} time(s), expected exactly once\n{text[-800:]}\n--- tree ---\n{desc_tree}", replay)
        stats.cls("planted-error-reported-once")
    if bad or planted_reached:
        if os.path.exists(os.path.join(W, "out", "main.o")):
            raise Fail("C28:built-despite-bad-import", f"bad imports {bad} but an object file was written\n--- tree ---\n{desc_tree}", replay)
        stats.cls("rejected-as-expected")
        shutil.rmtree(root, ignore_errors=True)
        return
    if diags or pr.returncode != 0:
        raise Fail("C28:rejected:" + runner.normalise_msg(diags[0][0] if diags else "exit %d" % pr.returncode)[:70], f"every import is good but the build fails: {diags[:4]}\n{text[-800:]}\n--- tree ---\n{desc_tree}", replay)
    exe = os.path.join(W, "out", "main")
    if not os.path.exists(exe):
        raise Fail("C28:no-executable", f"no diagnostics and no executable\n{text[-800:]}\n--- tree ---\n{desc_tree}", replay)
    r = subprocess.run([exe], stdout=subprocess.PIPE, stderr=subprocess.STDOUT, timeout=10)
    exp = "".join(f"{who(model, tgt)}\n" for _, tgt in model["edges"][0]) + f"{deep(model, ('file', 0), 3)}\n"
    got = r.stdout.decode("utf-8", "replace")
    if got != exp:
        raise Fail("C28:wrong-file-resolved", f"expected output {exp!r}, got {got!r}: some `file.name` did not refer to the file the import names\n--- tree ---\n{desc_tree}", replay)
    stats.cls("accepted-and-ran")
    stats.sample({"tree": {rel: t[:300] for rel, t in tree.items() if rel.startswith("work/") and rel.endswith(".capy")}, "stdout": got})
    shutil.rmtree(root, ignore_errors=True)


def replay_payload(payload, scratch):
    st_ = core.Stats()
    try:
        check(payload["case"], st_, scratch, "replay")
    except Fail as f:
        return f.key
    return None


RULE = ("trees of 1-6 source files in <= 3 directories of a working directory + a module directory (good module with helper file, module without mod.capy, absent module) + a directory "
        "outside both + non-.capy files; 0-3 imports per file: relative imports in 4 spellings (plain, ./, up-and-back, backslashes) incl. self-imports and cycles, missing / non-.capy (also `x.capy/`) / "
        "outside targets (also sibling directories whose name starts with the working directory's), #mod good / without mod.capy / absent / non-alphanumeric, relative import into the module directory; all files define the same names with their own identity. "
        "Non-trivial = >= 2 import edges among reachable files and (>= 2 different spellings or a bad import in a reachable file); distinct by case.")


def run(ctx):
    if ctx.replay:
        scratch = core.make_scratch("C28", "replay")
        payload = json.load(open(ctx.replay))
        ctx.evaluations = 1
        k = replay_payload(payload, scratch)
        if k:
            ctx.violations[k] = ("replayed case still fails", payload)
        shutil.rmtree(scratch, ignore_errors=True)
        return ctx.finish(RULE, False, [])
    total = 20000 if ctx.thorough else 1280
    infra = core.hypothesis_search(ctx, "pyv.c28", total)
    scratch = core.make_scratch("C28", "kf")
    rc = ctx.finish(RULE, False, [
        "`compiled exactly once` is observed through termination on cycles, correct `file.name` identities through every spelling of a path, and a planted type error being reported exactly once",
        "only main.capy declares externs (two files declaring the same extern is a separate defect)",
        "unreachable files are not compiled, so their bad imports are not expected to be reported",
    ], replayer=lambda p: replay_payload(p, scratch), min_nontrivial=50 if not ctx.collect_all() else 0)
    shutil.rmtree(scratch, ignore_errors=True)
    return 2 if infra and rc == 0 else rc
