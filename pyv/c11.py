"""C11 — switches are exhaustive, non-redundant, and dispatch on the runtime variant.

Cells: a generated sum type (enum with up to 6 variants, payloads, custom and non-monotone
discriminants; ?T; E!T; distinct wrappers of these) and a switch whose arms are an arbitrary
multiset of variant names (shorthand and fully qualified), maybe a foreign type, maybe a default
arm. Oracle: acceptance rule of the statement; when accepted, every call must print exactly the
matching arm's marker and the payload (or the default marker)."""
import json, shutil

from hypothesis import strategies as st

from . import core, cells
from .core import Fail

PAYLOADS = [None, "u8", "i32", "u64", "P", "[2]u16", "bool"]
PRELUDE = cells.PRELUDE + "P :: struct { x: i32, y: u8 };\nOther :: enum { Q, R: i32 };\n"


def payload_value(p, k):
    if p in ("^i32", "^P"):
        return "^pvi" if p == "^i32" else "^pvp"
    return {None: None, "u8": f"u8.({10 + k})", "i32": f"i32.(-{100 + k})", "u64": f"u64.({5000000000 + k})", "P": f"P.{{ x = {k + 1}, y = {k + 2} }}",
            "[2]u16": f"u16.[{k + 3}, {k + 4}]", "bool": "true"}[p]


def payload_print(p, arg):
    """(statements printing the payload of switch argument `arg`, expected text) for value index k"""
    if p == "^i32":
        return f'printf("%ld\\n", i64.({arg}^));'
    if p == "^P":
        return f'printf("%ld\\n", i64.({arg}.x));'
    return {None: "", "u8": f'printf("%ld\\n", i64.(u8.({arg})));', "i32": f'printf("%ld\\n", i64.(i32.({arg})));', "u64": f'printf("%ld\\n", i64.(u64.({arg})));',
            "P": f'printf("%ld\\n", i64.({arg}.x)); printf("%ld\\n", i64.({arg}.y));', "[2]u16": f'printf("%ld\\n", i64.([2]u16.({arg})[1]));', "bool": f'printf("%ld\\n", i64.(bool.({arg})));'}[p]


def payload_expected(p, k):
    if p in ("^i32", "^P"):
        return "771\n" if p == "^i32" else "772\n"
    return {None: "", "u8": f"{10 + k}\n", "i32": f"-{100 + k}\n", "u64": f"{5000000000 + k}\n", "P": f"{k + 1}\n{k + 2}\n", "[2]u16": f"{k + 4}\n", "bool": "1\n"}[p]


@st.composite
def cell_spec(draw):
    kind = draw(st.sampled_from(["enum", "enum", "enum", "opt", "erru", "distinct-enum", "distinct-opt"]))
    spec = {"kind": kind}
    if "enum" in kind:
        n = draw(st.integers(1, 6))
        variants = []
        # discriminants: all implicit, all manual, or mixed (manual ones small, so that they collide with the
        # values the implicit counter would hand out)
        custom = draw(st.sampled_from(["none", "all", "mixed", "mixed"]))
        used = set()
        for k in range(n):
            d = None
            if custom == "all" or (custom == "mixed" and draw(st.booleans())):
                d = draw(st.integers(0, 250)) if custom == "all" else draw(st.integers(0, n + 1))
                while d in used:
                    d = (d + 7) % 251 if custom == "all" else d + 1
                used.add(d)
            variants.append({"p": draw(st.sampled_from(PAYLOADS)), "d": d})
        spec["variants"] = variants
        names = [f"V{k}" for k in range(n)]
    elif "opt" in kind:
        spec["inner"] = draw(st.sampled_from(["i32", "u8", "P", "u64", "^i32", "^P"]))
        names = ["some", "nil"]
    else:
        spec["ok"] = draw(st.sampled_from(["i32", "u8", "u64"]))
        names = ["ok", "err"]
    # arms: start from a permutation of all names, then perturb
    order = draw(st.permutations(names))
    arms = list(order)
    style = draw(st.sampled_from(["plain", "plain", "same-name-twice", "nested-same-name", "default-uses-arg"]))
    mutation = draw(st.sampled_from(["none", "none", "none", "drop", "dup", "foreign", "drop+default", "default", "dup+default"]))
    if style == "default-uses-arg":
        mutation = draw(st.sampled_from(["drop+default", "default"]))
    if "drop" in mutation and len(arms) > 0:
        arms.pop(draw(st.integers(0, len(arms) - 1)))
    if "dup" in mutation and arms:
        arms.insert(draw(st.integers(0, len(arms))), arms[draw(st.integers(0, len(arms) - 1))])
    if mutation == "foreign":
        arms.insert(draw(st.integers(0, len(arms))), "foreign")
    spec["arms"] = arms
    spec["default"] = "default" in mutation
    spec["qualified"] = [draw(st.booleans()) for _ in arms]
    spec["mutation"] = mutation
    # variations of how the argument is named and used
    spec["style"] = style
    return spec


def make_cell(i, spec):
    kind = spec["kind"]
    T = f"T{i}"
    decls = []
    if "enum" in kind:
        vs = []
        for k, v in enumerate(spec["variants"]):
            s = f"V{k}"
            if v["p"]:
                s += f": {v['p']}"
            if v["d"] is not None:
                s += f" | {v['d']}"
            vs.append(s)
        base = f"En{i}"
        decls.append(f"{base} :: enum {{ {', '.join(vs)} }};")
        names = [f"V{k}" for k in range(len(spec["variants"]))]
        payload_of = {f"V{k}": v["p"] for k, v in enumerate(spec["variants"])}

        def pattern(name, qualified):
            if name == "foreign":
                return "Other.R" if qualified else ".Zz"
            return f"{base}.{name}" if qualified else f".{name}"

        def value(name, k):
            pv = payload_value(payload_of[name], k)
            return f"{base}.{name}" if pv is None else f"{base}.{name}.({pv})"
    elif "opt" in kind:
        base = f"?{spec['inner']}"
        names = ["some", "nil"]
        payload_of = {"some": spec["inner"], "nil": None}

        def pattern(name, qualified):
            return {"some": spec["inner"], "nil": "nil", "foreign": "i16"}[name]

        def value(name, k):
            return "nil" if name == "nil" else payload_value(spec["inner"], k)
    else:
        decls.append(f"Er{i} :: enum {{ Bad, Worse: u8 }};")
        base = f"Er{i}!{spec['ok']}"
        names = ["ok", "err"]
        payload_of = {"ok": spec["ok"], "err": None}

        def pattern(name, qualified):
            return {"ok": spec["ok"], "err": f"Er{i}", "foreign": "i16"}[name]

        def value(name, k):
            return payload_value(spec["ok"], k) if name == "ok" else f"mkerr{i}()"
        decls.append(f"mkerr{i} :: () -> Er{i} {{ Er{i}.Bad }}")
    if kind.startswith("distinct"):
        decls.append(f"{T} :: distinct {base};")
    else:
        decls.append(f"{T} :: {base};") if "enum" not in kind else decls.append(f"{T} :: {base};")
    style = spec.get("style", "plain")
    arg = "v" if style == "same-name-twice" else "a"
    arm_src = []
    for name, q in zip(spec["arms"], spec["qualified"]):
        p = payload_of.get(name)
        pr = payload_print(p, arg) if name != "foreign" else ""
        if style == "nested-same-name" and name != "foreign":
            # an inner switch that binds the same name; afterwards the outer argument must be visible again
            pr = pr + f' switch {arg} in inner_opt {{ i32 => {{ printf("%ld\\n", i64.({arg})); }}, nil => {{ puts("inner-nil"); }}, }}; ' + pr
        arm_src.append(f"        {pattern(name, q)} => {{ puts(\"{name}\"); {pr} }},")
    if spec["default"]:
        use = f" dcopy : {T} = {arg};" if style == "default-uses-arg" else ""
        if style == "default-uses-arg" and kind == "opt":
            # the default arm receives the whole value: look at it
            use = f' printf("%ld\\n", i64.(#is_variant({arg}, nil)));'
        arm_src.append(f'        _ => {{ puts("D");{use} }},')
    sw = f"    switch {arg} in v {{\n" + "\n".join(arm_src) + "\n    };\n"
    pre = "    inner_opt : ?i32 = 77;\n" if style == "nested-same-name" else ""
    decls.append(f"sw{i} :: (v: {T}) {{\n{pre}{sw}{sw if style == 'same-name-twice' else ''}}}")
    # acceptance rule
    named = [a for a in spec["arms"]]
    ok = "foreign" not in named and len(set(named)) == len(named) and (set(named) == set(names) or spec["default"])
    redundant_default = spec["default"] and set(named) == set(names) and len(set(named)) == len(named) and "foreign" not in named
    body, out = [], ""
    if "opt" in kind and spec["inner"].startswith("^"):
        body.append("pvi : i32 = 771; pvp : P = P.{ x = 772, y = 1 };")
    for k, name in enumerate(names):
        v = value(name, k)
        conv = f"{T}.({base}.({v}))" if kind.startswith("distinct") and "enum" in kind else (f"{T}.({v})" if kind.startswith("distinct") else v)
        if kind.startswith("distinct") and "opt" in kind:
            body.append(f"t{i}_{k} : {base} = {v}; sw{i}({T}.(t{i}_{k}));")
        elif kind.startswith("distinct"):
            body.append(f"t{i}_{k} : {base} = {v}; sw{i}({T}.(t{i}_{k}));")
        elif kind == "erru" or kind == "opt":
            body.append(f"t{i}_{k} : {base} = {v}; sw{i}(t{i}_{k});")
        else:
            body.append(f"sw{i}({conv});")
        if name in named:
            one = f"{name}\n" + payload_expected(payload_of[name], k)
            if style == "nested-same-name":
                one += "77\n" + payload_expected(payload_of[name], k)
        else:
            one = "D\n"
            if style == "default-uses-arg" and kind == "opt":
                one += "1\n" if name == "nil" else "0\n"
        out += one * (2 if style == "same-name-twice" else 1)
    return {
        "decls": decls, "body": body, "expect": "either" if (ok and redundant_default) else ("accept" if ok else "reject"), "out": out if ok else None,
        "key": f"C11:{kind}:{spec['mutation']}" + ("" if style == "plain" else ":" + style), "cls": f"{kind}.{spec['mutation']}",
        "desc": f"switch over {kind} {base} with arms {list(zip(spec['arms'], spec['qualified']))} default={spec['default']}", "spec": spec,
    }


DISTINCT_KEY = "crash:crates/hir_ty/src/globals.rs:internal error: entered unreachable code"


def strategy(profile):
    # while the listed finding `switch over a distinct sum type panics` is open, distinct wrappers are
    # left out of the search (the replay demonstrates it); otherwise nearly every batch would die on it
    avoid_distinct = any(f.get("status") == "open" and f["key"] == DISTINCT_KEY for f in core.load_findings("C11"))

    def fix(spec):
        if avoid_distinct and spec["kind"].startswith("distinct"):
            spec = dict(spec, kind=spec["kind"].split("-", 1)[1])
        return spec
    return st.lists(cell_spec().map(fix), min_size=4, max_size=12)


def nontrivial(c):
    s = c["spec"]
    return ("enum" in s["kind"] and len(s.get("variants", [])) >= 3 and any(v["d"] is not None for v in s["variants"])) or s["kind"].startswith("distinct") or s["mutation"] in ("drop", "dup")


def check(specs, stats, scratch, profile):
    cs = [make_cell(i, s) for i, s in enumerate(specs)]
    cells.run_cells(cs, stats, scratch, "C11", prelude=PRELUDE, nontrivial=nontrivial, payload=lambda c: c["spec"])
    stats.sample({"cells": [c["desc"] for c in cs[:4]]})


def replay_payload(payload, scratch):
    st_ = core.Stats()
    try:
        check(payload["cells"], st_, scratch, "replay")
    except Fail as f:
        return f.key
    return None


RULE = ("cells = (sum type, switch): enums with 1-6 variants (payloads none/u8/i32/u64/struct/array/bool, custom non-monotone discriminants), ?T, E!T and distinct wrappers; "
        "arms = a permutation of the variants perturbed by dropping one, duplicating one, adding a foreign type, with/without a default arm, shorthand or fully qualified; "
        "each accepted switch is called once per variant. Non-trivial = >= 3 variants with custom discriminants, a distinct wrapper, or an arm multiset that is off by exactly one arm; distinct by cell.")


def run(ctx):
    if ctx.replay:
        scratch = core.make_scratch("C11", "replay")
        payload = json.load(open(ctx.replay))
        ctx.evaluations = 1
        k = replay_payload(payload, scratch)
        if k:
            ctx.violations[k] = ("replayed case still fails", payload)
        shutil.rmtree(scratch, ignore_errors=True)
        return ctx.finish(RULE, False, [])
    total = 4000 if ctx.thorough else 160
    infra = core.hypothesis_search(ctx, "pyv.c11", total)
    scratch = core.make_scratch("C11", "kf")
    rc = ctx.finish(RULE, False, [
        "a default arm next to a complete set of arms is allowed to be accepted or rejected (the statement is silent)",
        "the statement is an only-if; the converse (a correct switch is accepted) follows from C01 and is asserted too",
    ], replayer=lambda p: replay_payload(p, scratch), min_nontrivial=50 if not ctx.collect_all() else 0)
    shutil.rmtree(scratch, ignore_errors=True)
    return 2 if infra and rc == 0 else rc
