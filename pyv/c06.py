"""C06 — the compiler never crashes or hangs, whatever it is given.

Inputs: (a) the deterministic mix of the in-process front-end checks (token soups, structured soups,
unicode strings, mutations of the examples / core / test corpus, near-valid type-error programs),
dumped by `capyv-lib GEN`; (b) Hypothesis-generated well-typed programs (C01 generator) with 1-3
token-level mutations; (c) the same spread over several files. Each goes to the real CLI in its
own process (address space capped at 4 GiB, watchdog). Oracle: exit status 0 or 1, no signal, no
panic / abort / stack overflow / Cranelift verifier error / internal error text, either diagnostics
or an object file, within the time bound. A watchdog hit is re-run alone with a longer limit; only a
reproducible one is reported, and inputs containing `comptime` are inconclusive then (a comptime
block may loop forever by itself)."""
import json, os, re, shutil, subprocess, multiprocessing

from hypothesis import strategies as st

from . import runner, core, gen, c01, c20
from .core import Fail, h64
from .lang import program_src

MEM = 4 << 30
SYNTAX = re.compile(r"^error: (missing|expected (?!a value)|unexpected|invalid|unterminated|unknown (token|escape))")
TOK = re.compile(r'\s+|[A-Za-z_][A-Za-z0-9_]*|\d+(?:\.\d+)?|"[^"\n]*"|\'[^\'\n]*\'|`[A-Za-z_]\w*|\^mut|::|:=|=>|->|==|!=|<=|>=|&&|\|\||<<|>>|\+=|-=|.', re.S)
POOL = ["(", ")", "{", "}", "[", "]", ",", ";", ":", "::", ":=", "=", ".", "^", "^mut", "?", "!", "=>", "->", "comptime", "struct", "enum", "distinct", "switch", "in", "if", "else",
        "while", "loop", "break", "continue", "return", "defer", "extern", "nil", "true", "i32", "u8", "usize", "type", "any", "str", "0", "1", "255", "300", "18446744073709551615",
        "x", "main", "_", "#import", "#mod", "#unwrap", "#is_variant", "mut", ".try", ".(", ".[", ".{", "\"s\"", "'c'", "`l", "+", "-", "*", "/", "%", "<", ">", "==", "&&", "~", "<<"]


def mutate_text(draw, text):
    toks = TOK.findall(text)
    idx = [i for i, t in enumerate(toks) if not t.isspace()]
    if not idx:
        return text
    for _ in range(draw(st.integers(1, 3))):
        if not idx:
            break
        k = idx[draw(st.integers(0, len(idx) - 1))]
        op = draw(st.sampled_from(["delete", "duplicate", "replace", "insert", "swap", "delete-range"]))
        if op == "delete":
            toks[k] = ""
        elif op == "duplicate":
            toks[k] = toks[k] + " " + toks[k]
        elif op == "replace":
            toks[k] = POOL[draw(st.integers(0, len(POOL) - 1))]
        elif op == "insert":
            toks[k] = POOL[draw(st.integers(0, len(POOL) - 1))] + " " + toks[k]
        elif op == "swap":
            k2 = idx[draw(st.integers(0, len(idx) - 1))]
            toks[k], toks[k2] = toks[k2], toks[k]
        else:
            k2 = min(len(toks), k + draw(st.integers(1, 12)))
            for j in range(k, k2):
                toks[j] = ""
    return "".join(toks)


@st.composite
def mutated_programs(draw, multi):
    avoid = c01.current_avoid()
    p = draw(gen.programs({"features": set(gen.FEATURES) - {"faults"}, "avoid": avoid, "max_fns": 3, "max_types": 3, "max_stmts": 6}))
    if multi:
        items = c20.top_level_items(p)
        arr = {"perm": list(draw(st.permutations(list(range(len(items)))))), "files": [draw(st.integers(0, 2)) for _ in items]}
        files = c20.arrange(p, arr)
    else:
        files = {"main.capy": program_src(p)}
    name = sorted(files)[draw(st.integers(0, len(files) - 1))]
    files[name] = mutate_text(draw, files[name])
    return {"files": files, "origin": "mutated-multi-file" if multi else "mutated-program"}


def strategy(profile):
    return mutated_programs(profile == "multi")


def judge(files, scratch, origin):
    """raises Fail; returns a class label otherwise"""
    o = runner.run_case(scratch, files, run=False, extra_args=("--no-exec",), compile_timeout=20, rlimit_as=MEM)
    replay = {"files": files, "origin": origin}
    text = "\n".join(f"// {n}\n{t}" for n, t in files.items())
    if o.kind == "timeout":
        o2 = runner.run_case(scratch, files, run=False, extra_args=("--no-exec",), compile_timeout=90, rlimit_as=MEM)
        if o2.kind != "timeout":
            o = o2
        elif "comptime" in text:
            return "inconclusive"
        else:
            last = [l for l in o2.compiler_out.split("\n") if l.strip()][-1:] or ["nothing printed"]
            raise Fail("hang:after:" + runner.normalise_msg(last[0])[:40], f"no result within 90 s (input without comptime)\n--- input ---\n{text[:3000]}", replay)
    if o.kind == "crash":
        raise Fail(o.crash_key, f"compiler crashed ({origin})\n{o.compiler_out[-1200:]}\n--- input ---\n{text[:3000]}", replay)
    if o.kind == "rejected":
        syntax_only = all(SYNTAX.match(e) for e in o.errors) if o.errors else True
        return "rejected-syntax" if syntax_only else "rejected"
    return "accepted" if o.kind in ("built", "link-failure") else o.kind


def check(case, stats, scratch, profile):
    stats.evaluations += 1
    stats.cls("origin." + case["origin"])
    label = judge(case["files"], scratch, case["origin"])
    if label == "inconclusive":
        stats.inconclusive += 1
        return
    stats.cls("result." + label)
    if label in ("accepted", "rejected"):
        stats.nontrivial.add(h64(json.dumps(case["files"], sort_keys=True)))
        stats.sample({"origin": case["origin"], "result": label, "text": next(iter(case["files"].values()))[:300]})


OPERANDS = [
    # (name, declaration lines, expression)
    ("i32", ["vi : i32 = 5;"], "vi"), ("u8", ["vu : u8 = 200;"], "vu"), ("i64", ["vl : i64 = 7;"], "vl"), ("f32", ["vf : f32 = 1.5;"], "vf"), ("f64", ["vd : f64 = 5.0;"], "vd"),
    ("bool", ["vb : bool = true;"], "vb"), ("char", ["vc : char = 'c';"], "vc"), ("str", ['vs : str = "s";'], "vs"), ("ptr", ["pv : i32 = 1;", "vp : ^i32 = ^pv;"], "vp"),
    ("struct", ["vst : OpS = OpS.{ a = 1 };"], "vst"), ("enum", ["ve : OpE = OpE.A;"], "ve"), ("opt", ["vo : ?i32 = 3;"], "vo"), ("array", ["va : [2]i32 = i32.[1, 2];"], "va"),
    ("int-lit", [], "2"), ("float-lit", [], "2.5"), ("nil", [], "nil"), ("type", [], "i32"), ("distinct", ["vdi : OpD = OpD.(4);"], "vdi"), ("slice", ["vsa : [2]u8 = u8.[1, 2];", "vsl : []u8 = vsa;"], "vsl"),
]
BINOPS = ["+", "-", "*", "/", "%", "<", "<=", ">", ">=", "==", "!=", "&", "|", "~", "<<", ">>", "&&", "||"]
ASSIGNOPS = ["=", "+=", "-=", "*=", "/=", "%=", "&=", "|=", "~=", "<<=", ">>=", "&&=", "||="]
UNOPS = ["-", "!", "~", "^", "^mut "]


def operator_matrix():
    """every (left operand kind, operator, right operand kind) statement, one per program: the type checker must either
    accept it or reject it, never let it through to a panic in codegen"""
    head = "OpS :: struct { a: i32 };\nOpE :: enum { A, B: i32 };\nOpD :: distinct i32;\n"
    out = []
    for ln, ld, le in OPERANDS:
        for rn, rd, re_ in OPERANDS:
            decls = "\n    ".join(dict.fromkeys(ld + rd))
            for op in BINOPS:
                out.append((f"{ln} {op} {rn}", head + f"main :: () {{\n    {decls}\n    r :: {le} {op} {re_};\n}}\n"))
            if ld:
                for op in ASSIGNOPS:
                    out.append((f"{ln} {op} {rn}", head + f"main :: () {{\n    {decls}\n    {le} {op} {re_};\n}}\n"))
        for op in UNOPS:
            out.append((f"{op}{ln}", head + f"main :: () {{\n    {chr(10).join('    ' + d for d in ld)}\n    r :: {op}{le};\n}}\n"))
        for rn, rd, re_ in OPERANDS:
            decls = "\n    ".join(dict.fromkeys(ld + rd))
            out.append((f"{rn}.({ln})", head + f"main :: () {{\n    {decls}\n    r :: {rn if rn in ('i32', 'u8', 'i64', 'f32', 'f64', 'bool', 'char', 'str') else 'OpS' if rn == 'struct' else 'OpE' if rn == 'enum' else 'OpD' if rn == 'distinct' else 'u16'}.({le});\n}}\n"))
    return out


def _corpus_worker(args):
    widx, texts, open_keys, collect_all = args
    stats = core.Stats()
    scratch = core.make_scratch("C06", f"g{widx}")
    try:
        for t in texts:
            for variant in (t, t + "\nmain :: () {}\n" if "main ::" not in t else None):
                if variant is None:
                    continue
                try:
                    check({"files": {"main.capy": variant}, "origin": "corpus-mix"}, stats, scratch, "corpus")
                except Fail as f:
                    if f.key in open_keys or collect_all:
                        stats.known_hits[f.key] = stats.known_hits.get(f.key, 0) + 1
                        if f.key not in stats.first_desc or len(f.desc) < len(stats.first_desc[f.key]):
                            stats.first_desc[f.key] = f.desc
                            stats.first_replay[f.key] = f.replay
                    else:
                        old = stats.violations.get(f.key)
                        if old is None or len(json.dumps(f.replay)) < len(json.dumps(old[1])):
                            stats.violations[f.key] = (f.desc, f.replay)
    finally:
        shutil.rmtree(scratch, ignore_errors=True)
    return stats


def replay_payload(payload, scratch):
    try:
        judge(payload["files"], scratch, payload.get("origin", "replay"))
    except Fail as f:
        return f.key
    return None


RULE = ("inputs = the operator matrix (every binary / compound-assignment / unary operator and cast between 19 kinds of operand, one statement per program; 1/8 of the ~11000 programs "
        "per quick run, all in the thorough tier), token soups, structured soups, unicode strings, 1-3-step mutations of the examples / core / repository test corpus and near-valid type-error programs (the capyv-lib GEN mix, "
        "each also with a `main` appended), plus generated well-typed programs with 1-3 token-level mutations, single- and multi-file; every input is compiled by the real CLI in its own "
        "process (4 GiB address-space cap, 20 s watchdog, 90 s on re-run). Non-trivial = the input got past the parser (accepted, or rejected with a semantic diagnostic); distinct by input text.")


def run(ctx):
    if ctx.replay:
        scratch = core.make_scratch("C06", "replay")
        payload = json.load(open(ctx.replay))
        ctx.evaluations = 1
        k = replay_payload(payload, scratch)
        if k:
            ctx.violations[k] = ("replayed input still fails", payload)
        shutil.rmtree(scratch, ignore_errors=True)
        return ctx.finish(RULE, False, [])
    n = 16000 if ctx.thorough else 1200
    gen_dir = os.path.join("/dev/shm" if os.path.isdir("/dev/shm") else os.path.join(core.VERIF, "work"), f"capyv-C06-gen-{os.getpid()}")
    shutil.rmtree(gen_dir, ignore_errors=True)
    pr = subprocess.run(["/verif/target/release/capyv-lib", "GEN", "--n", str(n), "--out", gen_dir], env={**os.environ, "VERIF_SEED": str(ctx.seed)}, stdout=subprocess.PIPE, stderr=subprocess.STDOUT)
    if pr.returncode != 0:
        print("capyv-lib GEN failed:\n" + pr.stdout.decode("utf-8", "replace")[-2000:])
        return 2
    texts = []
    # the operator matrix: all of it in the thorough tier, a seeded sample of it in the quick tier
    matrix = [t for _, t in operator_matrix()]
    if not ctx.thorough and not os.environ.get("CAPYV_C06_FULL_MATRIX"):
        matrix = [t for k, t in enumerate(matrix) if h64(ctx.seed, "opmatrix", k) % 8 == 0]
    texts += matrix
    ctx.extra["operator_matrix_programs"] = len(matrix)
    for name in sorted(os.listdir(gen_dir)):
        raw = open(os.path.join(gen_dir, name), "rb").read()
        if len(raw) <= 65536:
            texts.append(raw.decode("utf-8", "replace"))
    shutil.rmtree(gen_dir, ignore_errors=True)
    jobs = [(w, texts[w::core.NWORKERS], frozenset(ctx.open_keys), ctx.collect_all()) for w in range(core.NWORKERS)]
    with multiprocessing.Pool(core.NWORKERS) as pool:
        for st_ in pool.imap_unordered(_corpus_worker, jobs):
            ctx.merge(st_)
    total = 8000 if ctx.thorough else 800
    infra = core.hypothesis_search(ctx, "pyv.c06", total, profiles=("single", "single", "single", "multi"))
    scratch = core.make_scratch("C06", "kf")
    rc = ctx.finish(RULE, False, [
        "the host is loaded by the other checks' builds, so the watchdog is generous (20 s, then 90 s alone); an input that only exceeds it under load is inconclusive, never a violation",
        "an input containing `comptime` that does not finish is inconclusive: a comptime block may legitimately not terminate",
        "nesting depth of generated inputs stays below the quantifier's 200",
    ], replayer=lambda p: replay_payload(p, scratch), min_nontrivial=50 if not ctx.collect_all() else 0)
    shutil.rmtree(scratch, ignore_errors=True)
    return 2 if infra and rc == 0 else rc
