import sys, os, importlib


def main():
    args = sys.argv[1:]
    if not args:
        print("usage: python -m pyv.main <Cxx> [--tier quick|thorough] [--replay PATH]", file=sys.stderr)
        return 2
    prop = args[0]
    tier = os.environ.get("VERIF_TIER", "quick")
    replay = None
    i = 1
    while i < len(args):
        if args[i] == "--tier":
            tier = args[i + 1]; i += 2
        elif args[i] == "--replay":
            replay = args[i + 1]; i += 2
        else:
            i += 1
    try:
        seed = int(os.environ.get("VERIF_SEED", "0"))
    except ValueError:
        seed = 0
    from .core import Ctx
    try:
        mod = importlib.import_module("pyv." + prop.lower())
    except ModuleNotFoundError:
        print(f"no E-prog check for {prop}", file=sys.stderr)
        return 2
    ctx = Ctx(prop, tier, seed, replay)
    return mod.run(ctx)


if __name__ == "__main__":
    sys.exit(main())
