"""C14 — immutable data can never be modified.

Assignment targets and `^mut` operands are built as chains over {`::` local, `:=` local, parameter,
global, `^T` pointer, `^mut T` pointer (from every source of a pointer: annotated / inferred local,
parameter, function result, struct field), struct field, array element, explicit deref, auto-deref,
parentheses}. Oracle by *types*, as the statement says: a target is mutable iff its root is a
`:=` local reached only through fields/elements/parens, or the path goes through a dereference of
a pointer whose type is `^mut`. Immutable => rejected; mutable => accepted and the effect is
visible through the alias that is printed afterwards. Enumerated completely."""
import json, shutil

from . import core, cells
from .core import Fail

PRELUDE = cells.PRELUDE + """In :: struct { v: i32 };
S :: struct { a: i32, arr: [2]i32, inner: In };
HM :: struct { p: ^mut S };
HI :: struct { p: ^S };
G : i32 : 5;
mk :: () -> S { S.{ a = 1, arr = i32.[2, 3], inner = In.{ v = 4 } } }
idm :: (p: ^mut S) -> ^mut S { p }
idi :: (p: ^S) -> ^S { p }
weaken :: (p: ^mut S) -> ^S { p }
"""

PATHS = [("", "S"), (".a", "i32"), (".arr[1]", "i32"), (".inner.v", "i32"), (".inner", "In")]
OPS = ["assign", "compound", "refmut"]


def all_specs(thorough):
    specs = []
    roots = []
    # plain roots holding an S
    roots.append({"root": "imm-local", "mutable": False, "ptr": None})
    roots.append({"root": "mut-local", "mutable": True, "ptr": None})
    roots.append({"root": "param", "mutable": False, "ptr": None})
    # pointer roots: (source, pointer type mutability, binding kind)
    for src in ["annotated", "inferred", "param", "fn-result", "field", "weakened", "array-elem", "optional-unwrap"]:
        for pmut in (True, False):
            if src == "weakened" and pmut:
                continue
            for binding in ("::", ":="):
                if src in ("param", "fn-result") and binding == ":=":
                    continue
                roots.append({"root": "pointer", "src": src, "mutable": pmut, "ptr": pmut, "binding": binding})
    for r in roots:
        for path, pty in PATHS:
            for op in OPS:
                if op == "compound" and pty != "i32":
                    continue
                derefs = ["auto", "explicit"] if r["ptr"] is not None else [None]
                for deref in derefs:
                    if deref == "auto" and path == "":
                        continue  # a bare pointer variable is not a dereference
                    if op == "refmut" and deref == "explicit":
                        # `^mut p^.a` parses as `((^mut p)^).a`, and `^mut (p^.a)` takes the address
                        # of the parenthesised *value* (a temporary): no way to spell this operand
                        continue
                    for paren in ((False, True) if (thorough or op == "assign") and op != "refmut" else (False,)):
                        specs.append(dict(r, path=path, pty=pty, op=op, deref=deref, paren=paren, k="chain"))
    # containers whose *elements / fields are pointers*: replacing the element of an immutable container is a write to
    # immutable data, whatever the element's own type allows
    for cont in ("array", "struct"):
        for pmut in (True, False):
            for root in ("imm-local", "mut-local", "param"):
                for op in ("assign", "refmut"):
                    specs.append({"k": "container", "cont": cont, "ptr": pmut, "root": root, "op": op, "mutable": root == "mut-local"})
    # pointers to pointers: the pointer dereferenced *last* decides
    for outer in (True, False):
        for inner in (True, False):
            for form in ("explicit", "auto"):
                for op in ("assign", "compound"):
                    specs.append({"k": "ptrptr", "outer": outer, "inner": inner, "form": form, "op": op, "mutable": inner and outer, "root": "ptrptr", "ptr": inner})
    # the global and a parameter of scalar type
    for op in OPS:
        specs.append({"k": "global", "op": op, "mutable": False, "root": "global", "ptr": None})
    return specs


def make_container_cell(i, spec):
    pm = "^mut" if spec["ptr"] else "^"
    cont, root, op, mutable = spec["cont"], spec["root"], spec["op"], spec["mutable"]
    cty = f"[2]{pm} S" if cont == "array" else ("HM" if spec["ptr"] else "HI")
    lit = f".[{pm} ya{i}, {pm} ya{i}]" if cont == "array" else f"{cty}.{{ p = {pm} ya{i} }}"
    elem = "c[1]" if cont == "array" else "c.p"
    body = [f"ya{i} := mk();", f"yb{i} := mk();", f"yb{i}.a = 77;"]
    stmts = []
    if op == "assign":
        stmts.append(f"{elem} = {pm} yb{i};")
    else:
        stmts.append(f"q{i} :: ^mut {elem};")
        stmts.append(f"q{i}^ = {pm} yb{i};")
    stmts.append(f'printf("%ld\\n", i64.({elem}.a));')
    decls = []
    if root == "param":
        decls.append(f"cfn{i} :: (c: {cty}, yb{i}: {pm} S) {{\n    " + "\n    ".join(s_.replace(f"{pm} yb{i}", f"yb{i}") for s_ in stmts) + "\n}")
        body.append(f"cfn{i}({lit}, {pm} yb{i});")
    else:
        body.append(f"c {':=' if root == 'mut-local' else '::'} {lit};" if cont == "struct" else f"c : {cty} {'=' if root == 'mut-local' else ':'} {lit};")
        body += stmts
    key = f"C14:{op}:container:{cont}:{'ptr-mut' if spec['ptr'] else 'ptr-imm'}:{root}"
    return {"decls": decls, "body": body, "expect": "accept" if mutable else "reject", "out": "77\n" if mutable else None, "key": key,
            "desc": f"{op} of the pointer-typed {'element' if cont == 'array' else 'field'} of a {root} {cty}", "spec": spec, "cls": f"{'mutable' if mutable else 'immutable'}.container.{op}"}


def make_ptrptr_cell(i, spec):
    om = "^mut" if spec["outer"] else "^"
    im = "^mut" if spec["inner"] else "^"
    body = [f"y{i} := mk();", f"p{i} : {im} S = {im} y{i};", f"pp{i} : {om} {im} S = {om} p{i};"]
    target = f"pp{i}^^.a" if spec["form"] == "explicit" else f"pp{i}^.a"
    body.append(f"{target} = 9;" if spec["op"] == "assign" else f"{target} += 8;")
    body.append(f'printf("%ld\\n", i64.(y{i}.a));')
    # reached through an immutable pointer => rejected; only ^mut pointers on the way => accepted; an immutable outer pointer
    # holding a ^mut inner pointer falls under both sentences of the statement: either
    expect = "accept" if spec["mutable"] else ("reject" if not spec["inner"] else "either")
    return {"decls": [], "body": body, "expect": expect, "out": "9\n" if expect != "reject" else None,
            "key": f"C14:{spec['op']}:ptrptr:{'outer-mut' if spec['outer'] else 'outer-imm'}:{'inner-mut' if spec['inner'] else 'inner-imm'}:{spec['form']}",
            "desc": f"{spec['op']} through `{target}` with pp : {om} {im} S", "spec": spec, "cls": f"{'mutable' if spec['mutable'] else 'immutable'}.ptrptr"}


def make_cell(i, spec):
    if spec["k"] == "container":
        return make_container_cell(i, spec)
    if spec["k"] == "ptrptr":
        return make_ptrptr_cell(i, spec)
    decls, body = [], []
    op = spec["op"]
    if spec["k"] == "global":
        target, observe, pty, mutable = "G", None, "i32", False
    else:
        path, pty = spec["path"], spec["pty"]
        root = spec["root"]
        mutable = spec["mutable"]
        if root == "imm-local":
            body.append(f"x{i} :: mk();")
            base, observe_base = f"x{i}", f"x{i}"
        elif root == "mut-local":
            body.append(f"x{i} := mk();")
            base, observe_base = f"x{i}", f"x{i}"
        elif root == "param":
            base, observe_base = "x", "x"
        else:
            body.append(f"y{i} := mk();")
            observe_base = f"y{i}"
            pm = "^mut" if spec["ptr"] else "^"
            b = spec["binding"]
            src = spec["src"]
            if src == "annotated":
                body.append(f"p{i} : {pm} S {':' if b == '::' else '='} {pm} y{i};")
                base = f"p{i}"
            elif src == "inferred":
                body.append(f"p{i} {b} {pm} y{i};")
                base = f"p{i}"
            elif src == "param":
                base = "p"
            elif src == "fn-result":
                base = f"idm(^mut y{i})" if spec["ptr"] else f"idi(^y{i})"
            elif src == "field":
                H = "HM" if spec["ptr"] else "HI"
                body.append(f"h{i} {b} {H}.{{ p = {pm} y{i} }};")
                base = f"h{i}.p"
            elif src == "array-elem":
                body.append(f"ps{i} : [2]{pm} S {':' if b == '::' else '='} .[{pm} y{i}, {pm} y{i}];")
                base = f"ps{i}[1]"
            elif src == "optional-unwrap":
                body.append(f"po{i} : ?{pm} S {':' if b == '::' else '='} {pm} y{i};")
                base = f"#unwrap(po{i})"
            else:  # weakened: a ^mut pointer stored at type ^S
                body.append(f"p{i} : ^S {':' if b == '::' else '='} ^mut y{i};")
                base = f"p{i}"
            if spec["deref"] == "explicit":
                base = f"{base}^"
        if spec.get("paren"):
            base = f"({base})"
        target = base + path
        observe = observe_base + path
    # the operation
    stmts = []
    if op == "assign":
        if pty == "i32":
            stmts.append(f"{target} = 9;")
            newval = "9"
        elif pty == "In":
            stmts.append(f"{target} = In.{{ v = 9 }};")
            newval = "9"
        else:
            stmts.append(f"{target} = S.{{ a = 9, arr = i32.[9, 9], inner = In.{{ v = 9 }} }};")
            newval = "9"
    elif op == "compound":
        stmts.append(f"{target} += 5;")
        newval = None
    else:
        stmts.append(f"q{i} :: ^mut {target};")
        if pty == "i32":
            stmts.append(f"q{i}^ = 9;")
        elif pty == "In":
            stmts.append(f"q{i}.v = 9;")
        else:
            stmts.append(f"q{i}.a = 9;")
        newval = "9"
    out = None
    if mutable and observe is not None:
        obs = observe + ("" if pty == "i32" else (".v" if pty == "In" else ".a"))
        stmts.append(f'printf("%ld\\n", i64.({obs}));')
        if op == "compound":
            start = {".a": 1, ".arr[1]": 3, ".inner.v": 4}[spec["path"]]
            out = f"{start + 5}\n"
        else:
            out = "9\n"
    # parameters need a wrapper function
    if spec["k"] == "chain" and (spec["root"] == "param" or (spec["root"] == "pointer" and spec["src"] == "param")):
        if spec["root"] == "param":
            decls.append(f"fn{i} :: (x: S) {{\n    " + "\n    ".join(stmts) + "\n}")
            body.append(f"fn{i}(mk());")
        else:
            pm = "^mut" if spec["ptr"] else "^"
            inner = [s.replace(f"y{i}", "p") if False else s for s in stmts]
            # observe through the pointer parameter's target in the caller instead
            inner = [s for s in inner if not s.startswith("printf")]
            decls.append(f"fn{i} :: (p: {pm} S) {{\n    " + "\n    ".join(inner) + "\n}")
            body.append(f"fn{i}({pm} y{i});")
            body += [s for s in stmts if s.startswith("printf")]
    else:
        body += stmts
    desc = f"{op} on {target if spec['k'] == 'global' else spec.get('root')}:{spec.get('src', '')}:{'mut' if spec.get('ptr') else 'imm' if spec.get('ptr') is False else ''}:{spec.get('binding', '')} path `{spec.get('path', '')}` deref={spec.get('deref')} paren={spec.get('paren')}"
    key = f"C14:{op}:{spec.get('root')}:{spec.get('src', '-')}:{'ptr-mut' if spec.get('ptr') else 'ptr-imm' if spec.get('ptr') is False else 'noptr'}:{spec.get('deref') or '-'}"
    return {"decls": decls, "body": body, "expect": "accept" if mutable else "reject", "out": out, "key": key, "desc": desc, "spec": spec,
            "cls": f"{'mutable' if mutable else 'immutable'}.{op}"}


def check(specs, stats, scratch, profile):
    cs = [make_cell(i, s) for i, s in enumerate(specs)]
    cells.run_cells(cs, stats, scratch, "C14", prelude=PRELUDE, payload=lambda c: c["spec"],
                    nontrivial=lambda c: c["spec"].get("ptr") is not None and (c["spec"].get("path") or "") != "")
    stats.sample({"cells": [c["desc"] for c in cs[:5]]})


def replay_payload(payload, scratch):
    st_ = core.Stats()
    try:
        check(payload["cells"], st_, scratch, "replay")
    except Fail as f:
        return f.key
    return None


RULE = ("targets = root (`::` local, `:=` local, parameter, global, or a pointer of type ^S / ^mut S obtained from an annotated local, an inferred local, a parameter, a function "
        "result, a struct field, or a ^mut value stored at type ^S; bound with `::` or `:=`) + path (whole value, field, array element, nested field) + explicit or auto-deref + "
        "optional parentheses; plus arrays / structs whose elements / fields are pointers, held in a `::` local, a `:=` local or a parameter, whose element / field itself is replaced; operations = plain assignment, compound assignment, `^mut target` followed by a write. Enumerated completely (chains up to length 3; with all "
        "parenthesised variants in thorough). Non-trivial = chain containing a pointer step and a field/element step; distinct by cell.")


def run(ctx):
    if ctx.replay:
        scratch = core.make_scratch("C14", "replay")
        payload = json.load(open(ctx.replay))
        ctx.evaluations = 1
        k = replay_payload(payload, scratch)
        if k:
            ctx.violations[k] = ("replayed case still fails", payload)
        shutil.rmtree(scratch, ignore_errors=True)
        return ctx.finish(RULE, False, [])
    specs = all_specs(ctx.thorough)
    batches = [specs[i:i + 14] for i in range(0, len(specs), 14)]
    infra = core.run_batches(ctx, "pyv.c14", batches)
    scratch = core.make_scratch("C14", "kf")
    rc = ctx.finish(RULE, True, [
        "mutability is decided by the pointer's *type* (the statement: `through ^mut pointers`), not by the expression that initialised it",
        "a `::` binding of pointer type ^mut S still allows writes through the pointer (the pointee is not the binding)",
    ], replayer=lambda p: replay_payload(p, scratch), min_nontrivial=50 if not ctx.collect_all() else 0)
    shutil.rmtree(scratch, ignore_errors=True)
    return 2 if infra and rc == 0 else rc
