"""C21 — builds are reproducible.

Generated programs (valid and invalid, single- and multi-file) are compiled repeatedly:
 (a) two fresh CLI processes in two identically laid-out scratch directories => byte-identical
     object files and identical diagnostic output (timings stripped);
 (b) a second build in the *same* directory (stale ./out of the first build present) => same;
 (c) a build after an unrelated program was built in the same directory => same
     ("regardless of previous compilations").
Oracle: byte equality / text equality."""
import hashlib, json, os, re, shutil

from hypothesis import strategies as st

from . import runner, core, gen, c01, c20
from .core import Fail, h64
from .lang import program_src

TIMING = re.compile(r"(in|took|parsed in) \d+\.\d+s")


@st.composite
def cases(draw):
    avoid = c01.current_avoid()
    p = draw(gen.programs({"features": set(gen.FEATURES) - {"faults"}, "avoid": avoid, "max_fns": 4, "max_types": 3, "max_stmts": 7}))
    kind = draw(st.sampled_from(["single", "single", "multi", "invalid", "snippet", "snippet"]))
    files = {"main.capy": program_src(p)}
    if kind == "multi":
        items = c20.top_level_items(p)
        arr = {"perm": list(draw(st.permutations(list(range(len(items)))))), "files": [draw(st.integers(0, 2)) for _ in items]}
        files = c20.arrange(p, arr)
    elif kind == "invalid":
        # break the program: one type error, one undefined name or one syntax slip
        src = files["main.capy"]
        how = draw(st.sampled_from(["type", "undefined", "syntax", "two"]))
        inject = {"type": "    bad_ty : i32 = true;\n", "undefined": "    bad_un : i32 = not_defined_anywhere;\n", "syntax": "    bad_sy : = ;\n",
                  "two": "    bad_a : bool = 3;\n    bad_b : u8 = nope;\n"}[how]
        idx = src.rfind("main :: ()")
        brace = src.find("{\n", idx)
        files = {"main.capy": src[:brace + 2] + inject + src[brace + 2:]}
    if kind == "snippet":
        # shapes whose compilation iterates over members / writes padded aggregates into the object
        src = files["main.capy"]
        which = draw(st.sampled_from(["struct-cast", "comptime-padded", "missing-members", "comptime-array"]))
        n = draw(st.integers(3, 6))
        tys = ["i32", "f64", "char", "u64", "bool", "i16"][:n]
        tys2 = ["i64", "f32", "u8", "f64", "bool", "i32"][:n]
        order = list(draw(st.permutations(list(range(n)))))
        top, body = "", ""
        if which == "struct-cast":
            top = "CFoo :: struct { " + ", ".join(f"m{i}: {tys[i]}" for i in range(n)) + " };\nCBar :: struct { " + ", ".join(f"m{i}: {tys2[i]}" for i in order) + " };\n"
            vals = {"i32": "5", "f64": "42.0", "char": "'a'", "u64": "256", "bool": "true", "i16": "7"}
            body = "    cfoo := CFoo.{ " + ", ".join(f"m{i} = {vals[tys[i]]}" for i in range(n)) + " };\n    cbar := CBar.(cfoo);\n    printf(\"%ld\\n\", i64.(cbar.m0));\n"
        elif which == "comptime-padded":
            top = "CPad :: struct { a: u8, b: u64, c: u8 };\ncpad :: comptime { CPad.{ a = 1, b = 2, c = 3 } };\n"
            body = "    printf(\"%ld\\n\", i64.(cpad.b));\n    lpad :: comptime { x : ?u64 = 7; x };\n"
        elif which == "comptime-array":
            top = "CEl :: struct { a: u8, b: i64 };\ncarr :: CEl.[comptime { CEl.{ a = 1, b = 2 } }, comptime { CEl.{ a = 3, b = 4 } }];\n"
            body = "    printf(\"%ld\\n\", carr[1].b);\n"
        else:
            top = "CMiss :: struct { " + ", ".join(f"m{i}: i32" for i in range(n)) + " };\n"
            body = "    cmiss : CMiss = CMiss.{ m0 = 1 };\n"
            kind = "snippet-invalid"
        idx = src.rfind("main :: ()")
        brace = src.find("{\n", idx)
        files = {"main.capy": src[:idx] + top + src[idx:brace + 2] + body + src[brace + 2:]}
        kind = kind + ":" + which
    other = draw(st.sampled_from(['main :: () { }\n', 'puts :: (s: str) -> i32 extern;\nS :: struct { a: i32 };\nmain :: () -> i32 { puts("other"); x : S = S.{ a = 4 }; x.a }\n']))
    return {"files": files, "kind": kind, "other": other}


def strategy(profile):
    return cases()


def build_once(d, files, main="main.capy"):
    for rel, text in files.items():
        p = os.path.join(d, rel)
        os.makedirs(os.path.dirname(p), exist_ok=True)
        with open(p, "w") as f:
            f.write(text)
    import subprocess, time
    obj = os.path.join(d, "out", "main.o")
    # only an object written by *this* build counts (a stale one left by an earlier build is not this build's output)
    before = os.stat(obj).st_mtime_ns if os.path.exists(obj) else None
    try:
        pr = subprocess.run([core.CAPY, "build", main, "--mod-dir", core.MOD_DIR, "--color", "never", "--no-exec"], cwd=d, stdout=subprocess.PIPE, stderr=subprocess.STDOUT, timeout=30)
    except subprocess.TimeoutExpired:
        return None
    text = TIMING.sub("<t>", runner.clean(pr.stdout.decode("utf-8", "replace")))
    data = open(obj, "rb").read() if os.path.exists(obj) and os.stat(obj).st_mtime_ns != before else None
    return {"rc": pr.returncode, "out": text, "obj": data}


def fresh(scratch, name):
    d = os.path.join(scratch, name)
    shutil.rmtree(d, ignore_errors=True)
    os.makedirs(d)
    return d


def compare(a, b, what, case):
    if a is None or b is None:
        return
    replay = {"files": case["files"], "other": case["other"], "kind": case.get("kind", "")}
    # programs with a special snippet are keyed by it (so that one listed shape cannot hide another)
    shape = ":" + case["kind"].split(":", 1)[1] if case.get("kind", "").startswith("snippet") and ":" in case.get("kind", "") else ""
    desc_files = "\n".join(f"// {n}\n{t}" for n, t in case["files"].items())[:3000]
    if a["rc"] != b["rc"]:
        raise Fail(f"C21:{what}:exit-status", f"{what}: exit status {a['rc']} vs {b['rc']}\n--- files ---\n{desc_files}", replay)
    if a["out"] != b["out"]:
        al, bl = a["out"].split("\n"), b["out"].split("\n")
        i = next((k for k in range(min(len(al), len(bl))) if al[k] != bl[k]), min(len(al), len(bl)))
        raise Fail(f"C21:{what}:diagnostics{shape}", f"{what}: compiler output differs at line {i}:\n  {al[i:i+2]}\n  {bl[i:i+2]}\n--- files ---\n{desc_files}", replay)
    if (a["obj"] is None) != (b["obj"] is None):
        raise Fail(f"C21:{what}:object-presence", f"{what}: one build wrote an object file, the other did not\n--- files ---\n{desc_files}", replay)
    if a["obj"] is not None and a["obj"] != b["obj"]:
        n = next((k for k in range(min(len(a["obj"]), len(b["obj"]))) if a["obj"][k] != b["obj"][k]), -1)
        raise Fail(f"C21:object-bytes{shape}" if shape else f"C21:{what}:object-bytes", f"{what}: object files differ (sizes {len(a['obj'])} / {len(b['obj'])}, first difference at byte {n})\n--- files ---\n{desc_files}", replay)


def run_case(case, scratch):
    d1 = fresh(scratch, "r1")
    a = build_once(d1, case["files"])
    # (a) same layout, fresh process: rebuild in a directory with the same path (removed and recreated)
    shutil.rmtree(d1)
    os.makedirs(d1)
    b = build_once(d1, case["files"])
    compare(a, b, "fresh-process", case)
    # (b) again in the same directory with the stale ./out
    c = build_once(d1, case["files"])
    compare(a, c, "stale-out", case)
    # (c) after an unrelated program was built in the same directory
    for f in list(case["files"]):
        os.remove(os.path.join(d1, f))
    build_once(d1, {"main.capy": case["other"]})
    d = build_once(d1, case["files"])
    compare(a, d, "after-other-program", case)
    # (d) a different directory path with the same layout
    d2 = fresh(scratch, "r2-other-name")
    e = build_once(d2, case["files"])
    if a is not None and e is not None:
        e2 = dict(e, out=e["out"].replace("r2-other-name", "r1"))
        compare(a, e2, "other-directory", case)
    shutil.rmtree(d1, ignore_errors=True)
    shutil.rmtree(d2, ignore_errors=True)
    return a


def check(case, stats, scratch, profile):
    a = run_case(case, scratch)
    stats.evaluations += 1
    if a is None:
        stats.inconclusive += 1
        return
    has_diag = "error" in a["out"] or "warning" in a["out"]
    if len(case["files"]) >= 2 or has_diag:
        stats.nontrivial.add(h64(json.dumps(case["files"], sort_keys=True)))
    stats.cls("kind." + case["kind"])
    stats.cls("object-written" if a["obj"] is not None else "no-object")
    if a["obj"] is not None:
        stats.sample({"kind": case["kind"], "files": list(case["files"]), "object_sha256": hashlib.sha256(a["obj"]).hexdigest(), "object_bytes": len(a["obj"])})


def replay_payload(payload, scratch):
    try:
        run_case({"files": payload["files"], "other": payload["other"], "kind": payload.get("kind", "replay")}, scratch)
    except Fail as f:
        return f.key
    return None


RULE = ("generated programs: valid single-file, with snippets that make the compiler iterate over members or emit padded aggregates (struct-to-struct cast with reordered members, comptime "
        "blocks yielding padded structs / optionals, constant arrays of comptime items, struct literals missing several members), valid multi-file (C20 arrangement into up to 3 files), invalid (one or two injected type/undefined/syntax errors); each built 5 times with "
        "`capy build --no-exec`: fresh directory, same path recreated, same directory with stale ./out, after an unrelated program, a differently named directory; objects compared byte "
        "for byte, compiler output compared after stripping timings. Non-trivial = >= 2 files or >= 1 diagnostic; distinct by file contents.")


def run(ctx):
    if ctx.replay:
        scratch = core.make_scratch("C21", "replay")
        payload = json.load(open(ctx.replay))
        ctx.evaluations = 1
        k = replay_payload(payload, scratch)
        if k:
            ctx.violations[k] = ("replayed case still fails", payload)
        shutil.rmtree(scratch, ignore_errors=True)
        return ctx.finish(RULE, False, [])
    total = 8000 if ctx.thorough else 480
    infra = core.hypothesis_search(ctx, "pyv.c21", total)
    scratch = core.make_scratch("C21", "kf")
    rc = ctx.finish(RULE, False, [
        "the CLI discovers files by following imports from the file given on the command line, so `the order in which files are supplied` is exercised through different import graphs and definition orders of the same sources (C20 arrangements), not through a file list",
        "timings (`in 0.02s`) are stripped before comparing compiler output",
    ], replayer=lambda p: replay_payload(p, scratch), min_nontrivial=50 if not ctx.collect_all() else 0)
    shutil.rmtree(scratch, ignore_errors=True)
    return 2 if infra and rc == 0 else rc
