"""Shared machinery of the E-prog checks: context, known findings, evidence, violations,
parallel Hypothesis workers."""
import hashlib, json, os, sys, time, traceback, multiprocessing, shutil

VERIF = "/verif"
CAPY = "/verif/target/release/capy"
MOD_DIR = "/repo"
NWORKERS = int(os.environ.get("VERIF_WORKERS", "16"))


def h64(*parts):
    m = hashlib.sha256()
    for p in parts:
        m.update(str(p).encode())
        m.update(b"\0")
    return int.from_bytes(m.digest()[:8], "big")


class Fail(Exception):
    """A property violation: key (exact signature), description, replay payload (dict)."""
    def __init__(self, key, desc, replay=None):
        super().__init__(key)
        self.key, self.desc, self.replay = key, desc, replay


class Ctx:
    def __init__(self, prop, tier, seed, replay=None):
        self.prop, self.tier, self.seed, self.replay = prop, tier, seed, replay
        self.start = time.time()
        self.findings = load_findings(prop)
        self.open_keys = {f["key"] for f in self.findings if f.get("status") == "open"}
        self.evaluations = 0
        self.nontrivial = set()
        self.classes = {}
        self.samples = []
        self.known_hits = {}
        self.violations = {}
        self.extra = {}
        self.inconclusive = 0
        self.first_desc = {}
        self.first_replay = {}

    @property
    def thorough(self):
        return self.tier == "thorough"

    def collect_all(self):
        return "CAPYV_COLLECT_ALL" in os.environ

    def is_known(self, key):
        return self.replay is None and (key in self.open_keys or self.collect_all())

    def merge(self, st):
        """merge a worker's Stats"""
        self.evaluations += st.evaluations
        self.nontrivial |= st.nontrivial
        self.inconclusive += st.inconclusive
        for k, v in st.classes.items():
            self.classes[k] = self.classes.get(k, 0) + v
        for k, v in st.known_hits.items():
            self.known_hits[k] = self.known_hits.get(k, 0) + v
        for k, d in st.first_desc.items():
            if k not in self.first_desc or len(d) < len(self.first_desc[k]):
                self.first_desc[k] = d
        for k, r in getattr(st, "first_replay", {}).items():
            if r is not None and (k not in self.first_replay or len(json.dumps(r)) < len(json.dumps(self.first_replay[k]))):
                self.first_replay[k] = r
        for s in st.samples:
            if len(self.samples) < 10:
                self.samples.append(s)
        for k, (desc, replay) in st.violations.items():
            old = self.violations.get(k)
            if old is None or len(json.dumps(replay)) < len(json.dumps(old[1])):
                self.violations[k] = (desc, replay)

    def finish(self, rule, exhaustive, assumptions, replayer=None, min_nontrivial=2):
        prop = self.prop
        kf_lines = []
        if self.replay is None:
            for f in self.findings:
                if f.get("status") != "open":
                    continue
                reproduced = False
                rel = f.get("replay")
                if rel and replayer is not None:
                    try:
                        payload = json.load(open(os.path.join(VERIF, rel)))
                        k = replayer(payload)
                        reproduced = (k == f["key"])
                    except Exception as e:  # noqa
                        print(f"note: replay of {f['key']} failed to run: {e!r}", file=sys.stderr)
                hits = self.known_hits.get(f["key"], 0)
                if reproduced or hits > 0:
                    print(f"KNOWN-FINDING: property={prop} {f['key']} {f.get('description','')[:300]}")
                else:
                    print(f"note: listed finding {f['key']} of {prop} did not reproduce on this tree")
                kf_lines.append({"key": f["key"], "replayed": reproduced, "hits_in_search": hits})
        n_viol = 0
        rdir = os.path.join(VERIF, "replays", prop)
        for key, (desc, replay) in sorted(self.violations.items()):
            n_viol += 1
            if self.replay is not None:
                path = self.replay
            else:
                os.makedirs(rdir, exist_ok=True)
                path = os.path.join(rdir, "new-%016x.json" % h64(key))
                json.dump(replay, open(path, "w"), indent=1)
            print(f"violation key: {key}")
            print("  " + desc.replace("\n", "\n  "))
            print(f"VIOLATION property={prop} replay={path}")
        cov = {
            "evaluations": self.evaluations,
            "distinct_nontrivial": len(self.nontrivial),
            "rule": rule,
            "samples": self.samples,
            "exhaustive": exhaustive,
            "classes": dict(sorted(self.classes.items())),
            "known_finding_hits": self.known_hits,
            "known_findings": kf_lines,
            "inconclusive": self.inconclusive,
        }
        cov.update(self.extra)
        ev = {
            "property_id": prop, "tier": self.tier, "seed": int(self.seed), "level": "exploration",
            "coverage": cov, "assumptions": assumptions,
            "wall_s": round(time.time() - self.start, 2), "violations": n_viol,
        }
        if self.replay is None:
            os.makedirs(os.path.join(VERIF, "evidence"), exist_ok=True)
            json.dump(ev, open(os.path.join(VERIF, "evidence", f"{prop}.json"), "w"), indent=1)
        print(f"{prop} {self.tier}: evaluations={self.evaluations} distinct_nontrivial={len(self.nontrivial)} "
              f"violations={n_viol} inconclusive={self.inconclusive} wall={time.time()-self.start:.1f}s")
        if self.collect_all():
            # development mode: keep one replay per collected key for tools/kf_bulk.py
            cdir = os.path.join(VERIF, "work", "collect", prop)
            os.makedirs(cdir, exist_ok=True)
            for k, r in self.first_replay.items():
                if k not in self.open_keys:
                    json.dump({"key": k, "replay": r}, open(os.path.join(cdir, "%016x.json" % h64(k)), "w"), indent=1)
            for k, v in sorted(self.known_hits.items()):
                if k not in self.open_keys:
                    print(f"COLLECT {v:6d} {k}")
                    print("    " + self.first_desc.get(k, "")[:int(os.environ.get("CAPYV_COLLECT_CHARS", "1200"))].replace("\n", "\n    "))
        if n_viol:
            return 1
        if self.replay is None and (self.evaluations == 0 or len(self.nontrivial) < min_nontrivial):
            print("vacuous run: too few non-trivial cases", file=sys.stderr)
            return 2
        return 0


def load_findings(prop):
    p = os.path.join(VERIF, "known_findings.json")
    if not os.path.exists(p):
        return []
    d = json.load(open(p))
    return [f for f in d.get("findings", []) if f.get("property") == prop]


class Stats:
    """per-worker accumulators (picklable)"""
    def __init__(self):
        self.evaluations = 0
        self.nontrivial = set()
        self.classes = {}
        self.samples = []
        self.known_hits = {}
        self.violations = {}
        self.inconclusive = 0
        self.first_desc = {}
        self.first_replay = {}

    def cls(self, name, n=1):
        self.classes[name] = self.classes.get(name, 0) + n

    def sample(self, s):
        if len(self.samples) < 3:
            self.samples.append(s)


def run_hypothesis_worker(args):
    """Runs one Hypothesis search in this process. args = (module_name, prop, tier, seed, worker_idx,
    n_examples, open_keys, collect_all, profile). The module must define `strategy(profile)` and
    `check(case, stats, scratch)` raising Fail for violations."""
    modname, prop, tier, seed, widx, n_examples, open_keys, collect_all, profile = args
    import importlib
    from hypothesis import given, settings, seed as hseed, HealthCheck, Phase, Verbosity
    mod = importlib.import_module(modname)
    stats = Stats()
    scratch = make_scratch(prop, widx)
    state = {"fail": None}

    def body(case):
        try:
            mod.check(case, stats, scratch, profile)
        except Fail as f:
            if f.key in open_keys or collect_all:
                stats.known_hits[f.key] = stats.known_hits.get(f.key, 0) + 1
                if f.key not in stats.first_desc or len(f.desc) < len(stats.first_desc[f.key]):
                    stats.first_desc[f.key] = f.desc
                    stats.first_replay[f.key] = f.replay
                return
            state["fail"] = f
            raise

    test = given(mod.strategy(profile))(body)
    test = hseed(h64(seed, prop, widx, profile) & 0xFFFFFFFF)(test)
    # VERIF_NO_SHRINK=1 (development aid for mutant sweeps): report the first failure unshrunk
    phases = [Phase.generate] if os.environ.get("VERIF_NO_SHRINK") else [Phase.generate, Phase.shrink]
    test = settings(max_examples=n_examples, database=None, deadline=None, derandomize=False,
                    suppress_health_check=list(HealthCheck), phases=phases,
                    verbosity=Verbosity.quiet, report_multiple_bugs=False)(test)
    try:
        test()
    except Fail as f:
        f = state["fail"] or f
        stats.violations[f.key] = (f.desc, f.replay)
    except Exception as e:  # generator/infrastructure trouble
        tb = traceback.format_exc()
        stats.violations["INFRA:" + type(e).__name__] = (tb[-3000:], None)
    finally:
        shutil.rmtree(scratch, ignore_errors=True)
    return stats


def make_scratch(prop, widx):
    base = "/dev/shm" if os.path.isdir("/dev/shm") and os.access("/dev/shm", os.W_OK) else os.path.join(VERIF, "work")
    d = os.path.join(base, f"capyv-{prop}-{os.getpid()}-{widx}")
    shutil.rmtree(d, ignore_errors=True)
    os.makedirs(d, exist_ok=True)
    return d


def _batch_worker(args):
    """runs `mod.check(batch, stats, scratch, 'enumerated')` for a list of batches in this process"""
    modname, prop, widx, batches, open_keys, collect_all = args
    import importlib
    mod = importlib.import_module(modname)
    stats = Stats()
    scratch = make_scratch(prop, f"b{widx}")
    try:
        for b in batches:
            todo = [b]
            while todo:
                cur = todo.pop()
                try:
                    mod.check(cur, stats, scratch, "enumerated")
                except Fail as f:
                    if f.key in open_keys or collect_all:
                        stats.known_hits[f.key] = stats.known_hits.get(f.key, 0) + 1
                        if f.key not in stats.first_desc or len(f.desc) < len(stats.first_desc[f.key]):
                            stats.first_desc[f.key] = f.desc
                            stats.first_replay[f.key] = f.replay
                    else:
                        stats.violations.setdefault(f.key, (f.desc, f.replay))
                    # continue with the rest of the batch: drop the offending cell(s) and retry
                    bad = f.replay.get("cells") if isinstance(f.replay, dict) else None
                    if bad and len(bad) == 1 and len(cur) > 1:
                        rest = [c for c in cur if c != bad[0]]
                        if len(rest) < len(cur):
                            todo.append(rest)
                except Exception:
                    stats.violations["INFRA:" + modname] = (traceback.format_exc()[-3000:], None)
    finally:
        shutil.rmtree(scratch, ignore_errors=True)
    return stats


def run_batches(ctx, modname, batches):
    """Distributes enumerated batches over NWORKERS processes (deterministic, no randomness)."""
    jobs = [(modname, ctx.prop, w, batches[w::NWORKERS], frozenset(ctx.open_keys), ctx.collect_all()) for w in range(NWORKERS)]
    infra = False
    with multiprocessing.Pool(NWORKERS) as pool:
        for st in pool.imap_unordered(_batch_worker, jobs):
            for k in list(st.violations):
                if k.startswith("INFRA:"):
                    infra = True
                    print("infrastructure trouble in a worker:\n" + st.violations[k][0], file=sys.stderr)
                    del st.violations[k]
            ctx.merge(st)
    return infra


def hypothesis_search(ctx, modname, total_examples, profiles=("default",)):
    """Fans a Hypothesis search out over NWORKERS processes; merges the results into ctx.
    Returns True if infrastructure trouble was seen."""
    jobs = []
    per = max(1, total_examples // (NWORKERS))
    for w in range(NWORKERS):
        profile = profiles[w % len(profiles)]
        jobs.append((modname, ctx.prop, ctx.tier, ctx.seed, w, per, frozenset(ctx.open_keys), ctx.collect_all(), profile))
    infra = False
    with multiprocessing.Pool(NWORKERS) as pool:
        for st in pool.imap_unordered(run_hypothesis_worker, jobs):
            for k in list(st.violations):
                if k.startswith("INFRA:"):
                    infra = True
                    print("infrastructure trouble in a worker:\n" + st.violations[k][0], file=sys.stderr)
                    del st.violations[k]
            ctx.merge(st)
    return infra
