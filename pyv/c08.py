"""C08 — integer and float operations and casts have exact two's-complement / IEEE semantics.

Table-driven: each generated program holds ~100 (type, operator, operands) cases; every case is a
tiny function (operands arrive through parameters, so nothing is folded) whose result is printed
once computed at run time and once inside `comptime`. Oracle: Python big-int arithmetic with masks,
numpy float32/float64, exact nearest-even int->float rounding."""
import json, shutil, struct
from fractions import Fraction

import numpy as np
from hypothesis import strategies as st

from . import runner, core
from .core import Fail, h64
from .lang import INTS, Int

np.seterr(all="ignore")

INT_BY_NAME = {t.name: t for t in INTS}
BIN_OPS = ["+", "-", "*", "/", "%", "&", "|", "~", "<<", ">>"]
CMP_OPS = ["==", "!=", "<", "<=", ">", ">="]
FLOATS = {"f32": (np.float32, 32), "f64": (np.float64, 64)}

PRELUDE = """printf :: (fmt: str, n: i64) -> i32 extern;
bits32 :: (x: f32) -> u32 { (^u32.(rawptr.(^x)))^ }
bits64 :: (x: f64) -> u64 { (^u64.(rawptr.(^x)))^ }
fb32 :: (x: u32) -> f32 { (^f32.(rawptr.(^x)))^ }
fb64 :: (x: u64) -> f64 { (^f64.(rawptr.(^x)))^ }
"""


def boundary(t):
    vals = {0, 1, t.max, t.max - 1, t.min, t.min + 1}
    if t.signed:
        vals |= {-1, -2}
    for k in (1, 7, 8, 15, 16, 31, 32, 63, 64, 100, 127):
        if k < t.bits:
            for v in ((1 << k), (1 << k) - 1, (1 << k) + 1):
                if t.min <= v <= t.max:
                    vals.add(v)
                if t.signed and t.min <= -v <= t.max:
                    vals.add(-v)
    return sorted(vals)


@st.composite
def int_value(draw, t):
    if draw(st.integers(0, 9)) < 6:
        b = boundary(t)
        return b[draw(st.integers(0, len(b) - 1))]
    return draw(st.integers(t.min, t.max))


FLOAT_BOUNDARY = [0.0, -0.0, 1.0, -1.0, 0.5, 1.5, 2.0, 3.0, 0.1, 1e10, -1e10, 16777216.0, 16777217.0, 1e-3, 123456.789,
                  4294967296.0, 9.007199254740992e15, 1e30, -2.5, 255.0, 256.0, 65535.0, 2147483648.0, 1e-30]


@st.composite
def float_value(draw, name):
    k = draw(st.integers(0, 9))
    if k < 6:
        v = FLOAT_BOUNDARY[draw(st.integers(0, len(FLOAT_BOUNDARY) - 1))]
    else:
        v = draw(st.floats(allow_nan=False, allow_infinity=False, width=32 if name == "f32" else 64))
    return float(FLOATS[name][0](v))


@st.composite
def case(draw, avoid=frozenset()):
    c = draw(raw_case())
    # steer away from listed open findings (all of them 128-bit): the replays demonstrate them
    if "wide-divmod" in avoid and c["k"] == "bin" and c["op"] in ("/", "%") and INT_BY_NAME[c["t"]].bits == 128:
        c = dict(c, op="*")
    if "wide-float" in avoid and c["k"] in ("i2f", "f2i"):
        n = c["s"] if c["k"] == "i2f" else c["d"]
        if INT_BY_NAME[n].bits == 128:
            t64 = "i64" if INT_BY_NAME[n].signed else "u64"
            c = dict(c)
            if c["k"] == "i2f":
                c["s"] = t64
                c["a"] = INT_BY_NAME[t64].wrap(c["a"])
            else:
                c["d"] = t64
                if not (INT_BY_NAME[t64].min <= int(c["a"]) <= INT_BY_NAME[t64].max):
                    c["a"] = 1.5
    return c


@st.composite
def raw_case(draw):
    kind = draw(st.sampled_from(["bin", "bin", "bin", "un", "cmp", "cmp", "cast", "cast", "cast", "fbin", "fcmp", "i2f", "i2f", "f2i", "f2f", "boolchar", "weak"]))
    if kind == "weak":
        # unannotated literals that never meet a typed value keep the weak type {uint}, compiled as a signed i32
        op = draw(st.sampled_from(["/", "%", ">>", "<", "<=", ">", ">="]))
        small = st.one_of(st.integers(0, 40), st.integers(0, (1 << 31) - 1))
        a, b = draw(small), draw(small)
        c = draw(st.integers(0, 31)) if op == ">>" else draw(st.one_of(st.integers(1, 9), st.integers(1, (1 << 31) - 1)))
        return {"k": "weak", "op": op, "a": a, "b": b, "c": c}
    if kind in ("bin", "un", "cmp"):
        t = draw(st.sampled_from(INTS))
        a = draw(int_value(t))
        if kind == "un":
            op = draw(st.sampled_from(["-", "~"] if t.signed else ["~"]))
            return {"k": "un", "t": t.name, "op": op, "a": a}
        if kind == "cmp":
            return {"k": "cmp", "t": t.name, "op": draw(st.sampled_from(CMP_OPS)), "a": a, "b": draw(int_value(t))}
        op = draw(st.sampled_from(BIN_OPS))
        if op in ("<<", ">>"):
            b = draw(st.integers(0, t.bits - 1))
        else:
            b = draw(int_value(t))
            if op in ("/", "%"):
                if b == 0:
                    b = 1
                if t.signed and a == t.min and b == -1:
                    b = 1
        return {"k": "bin", "t": t.name, "op": op, "a": a, "b": b}
    if kind == "cast":
        s = draw(st.sampled_from(INTS))
        d = draw(st.sampled_from(INTS))
        return {"k": "cast", "s": s.name, "d": d.name, "a": draw(int_value(s)), "implicit": draw(st.booleans())}
    if kind == "boolchar":
        d = draw(st.sampled_from(INTS))
        which = draw(st.sampled_from(["bool2int", "char2int", "int2char", "boolops"]))
        if which == "bool2int":
            return {"k": "bool2int", "d": d.name, "a": draw(st.booleans())}
        if which == "char2int":
            return {"k": "char2int", "d": d.name, "a": draw(st.integers(0, 255))}
        if which == "int2char":
            return {"k": "int2char", "s": d.name, "a": draw(int_value(d))}
        return {"k": "boolops", "op": draw(st.sampled_from(["&", "|", "==", "!=", "&&", "||"])), "a": draw(st.booleans()), "b": draw(st.booleans())}
    if kind in ("fbin", "fcmp"):
        f = draw(st.sampled_from(["f32", "f64"]))
        a = draw(float_value(f))
        b = draw(float_value(f))
        if kind == "fbin":
            return {"k": "fbin", "t": f, "op": draw(st.sampled_from(["+", "-", "*", "/"])), "a": a, "b": b}
        return {"k": "fcmp", "t": f, "op": draw(st.sampled_from(CMP_OPS)), "a": a, "b": b}
    if kind == "i2f":
        s = draw(st.sampled_from(INTS))
        return {"k": "i2f", "s": s.name, "d": draw(st.sampled_from(["f32", "f64"])), "a": draw(int_value(s))}
    if kind == "f2i":
        d = draw(st.sampled_from(INTS))
        f = draw(st.sampled_from(["f32", "f64"]))
        # a float whose truncation fits the target type
        v = draw(int_value(d))
        frac = draw(st.sampled_from([0.0, 0.25, 0.5, 0.75, 0.999]))
        fv = float(FLOATS[f][0](v))
        fv = fv + (frac if v >= 0 else -frac)
        fv = float(FLOATS[f][0](fv))
        if fv != fv or fv in (float("inf"), float("-inf")):
            fv = 1.5
        tr = int(fv)
        if not (d.min <= tr <= d.max) or abs(fv) >= 2.0 ** (d.bits - (1 if d.signed else 0)):
            fv = 1.5
        return {"k": "f2i", "s": f, "d": d.name, "a": fv}
    return {"k": "f2f", "s": draw(st.sampled_from(["f32", "f64"])), "d": draw(st.sampled_from(["f32", "f64"])), "a": draw(float_value("f64"))}


# ------------------------------------------------------------------------------------------------
# oracle

def trunc_div(a, b):
    q = abs(a) // abs(b)
    return q if (a < 0) == (b < 0) else -q


def int_to_float(v, name):
    """nearest representable float (ties to even) of the exact integer value"""
    if name == "f64":
        return float(np.float64(float(v)))  # Python's int->float is correctly rounded
    mant, emax = 24, 127
    if v == 0:
        return 0.0
    sign = -1 if v < 0 else 1
    m = abs(v)
    nbits = m.bit_length()
    if nbits > mant:
        shift = nbits - mant
        q, r = m >> shift, m & ((1 << shift) - 1)
        half = 1 << (shift - 1)
        if r > half or (r == half and (q & 1)):
            q += 1
        m2 = q << shift
    else:
        m2 = m
    if m2.bit_length() - 1 > emax:
        return float("inf") * sign
    return float(np.float32(sign * float(m2)))


def fbits(v, name):
    if name == "f32":
        return struct.unpack("<I", struct.pack("<f", v))[0]
    return struct.unpack("<Q", struct.pack("<d", v))[0]


def is_nan_bits(bits, name):
    if name == "f32":
        return (bits & 0x7F800000) == 0x7F800000 and (bits & 0x7FFFFF) != 0
    return (bits & 0x7FF0000000000000) == 0x7FF0000000000000 and (bits & 0xFFFFFFFFFFFFF) != 0


def to_i64(v):
    v &= (1 << 64) - 1
    return v - (1 << 64) if v >> 63 else v


def expected(c):
    """returns ('int', type name, value) | ('bool', value) | ('float', name, bits)"""
    k = c["k"]
    if k == "bin":
        t = INT_BY_NAME[c["t"]]
        a, b, op = c["a"], c["b"], c["op"]
        r = {"+": lambda: a + b, "-": lambda: a - b, "*": lambda: a * b, "/": lambda: trunc_div(a, b),
             "%": lambda: a - trunc_div(a, b) * b, "&": lambda: a & b, "|": lambda: a | b, "~": lambda: a ^ b,
             "<<": lambda: a << b, ">>": lambda: a >> b}[op]()
        return ("int", t.name, t.wrap(r))
    if k == "un":
        t = INT_BY_NAME[c["t"]]
        return ("int", t.name, t.wrap(-c["a"] if c["op"] == "-" else ~c["a"]))
    if k == "weak":
        return ("bool", True)
    if k == "cmp":
        a, b = c["a"], c["b"]
        return ("bool", {"==": a == b, "!=": a != b, "<": a < b, "<=": a <= b, ">": a > b, ">=": a >= b}[c["op"]])
    if k == "cast":
        return ("int", c["d"], INT_BY_NAME[c["d"]].wrap(c["a"]))
    if k == "bool2int":
        return ("int", c["d"], 1 if c["a"] else 0)
    if k == "char2int":
        return ("int", c["d"], INT_BY_NAME[c["d"]].wrap(c["a"]))
    if k == "int2char":
        return ("int", "u8", c["a"] & 0xFF)
    if k == "boolops":
        a, b = c["a"], c["b"]
        return ("bool", {"&": a and b, "|": a or b, "==": a == b, "!=": a != b, "&&": a and b, "||": a or b}[c["op"]])
    if k == "fbin":
        F = FLOATS[c["t"]][0]
        a, b = F(c["a"]), F(c["b"])
        r = {"+": lambda: a + b, "-": lambda: a - b, "*": lambda: a * b, "/": lambda: a / b}[c["op"]]()
        return ("float", c["t"], fbits(float(F(r)), c["t"]))
    if k == "fcmp":
        F = FLOATS[c["t"]][0]
        a, b = F(c["a"]), F(c["b"])
        return ("bool", bool({"==": a == b, "!=": a != b, "<": a < b, "<=": a <= b, ">": a > b, ">=": a >= b}[c["op"]]))
    if k == "i2f":
        return ("float", c["d"], fbits(int_to_float(c["a"], c["d"]), c["d"]))
    if k == "f2i":
        return ("int", c["d"], INT_BY_NAME[c["d"]].wrap(int(c["a"])))
    if k == "f2f":
        F = FLOATS[c["d"]][0]
        src = float(FLOATS[c["s"]][0](c["a"]))
        return ("float", c["d"], fbits(float(F(src)), c["d"]))
    raise KeyError(k)


# ------------------------------------------------------------------------------------------------
# program text

def int_src(t, v):
    """an expression of type t (an Int) with value v, built only from literals the lexer accepts"""
    n = t.name
    if t.bits <= 64:
        if v >= 0:
            return f"{n}.({v})"
        if v == t.min:
            return f"({n}.(-{-(v + 1)}) - {n}.(1))"
        return f"{n}.(-{-v})"
    if v < 0:
        m = (-v)
        if m < (1 << 63):
            return f"({n}.(0) - {n}.({m}))"
        hi, lo = m >> 64, m & ((1 << 64) - 1)
        return f"({n}.(0) - (({n}.(u64.({hi})) << 64) | {n}.(u64.({lo}))))"
    if v < (1 << 63):
        return f"{n}.({v})"
    hi, lo = v >> 64, v & ((1 << 64) - 1)
    return f"(({n}.(u64.({hi})) << 64) | {n}.(u64.({lo})))"


def float_src(name, v):
    return f"fb{32 if name == 'f32' else 64}(u{32 if name == 'f32' else 64}.({fbits(v, name)}))"


def bool_src(b):
    return "true" if b else "false"


def case_fn(i, c):
    """(function definition, call expression, result kind/type)"""
    k = c["k"]
    f = f"c{i}"
    if k == "bin":
        t = c["t"]
        return f"{f} :: (a: {t}, b: {t}) -> {t} {{ a {c['op']} b }}", f"{f}({int_src(INT_BY_NAME[t], c['a'])}, {int_src(INT_BY_NAME[t], c['b'])})"
    if k == "weak":
        d, op = c["a"] - c["b"], c["op"]
        if op in ("<", "<=", ">", ">="):
            truth = {"<": d < c["c"], "<=": d <= c["c"], ">": d > c["c"], ">=": d >= c["c"]}[op]
            tail = f"(d {op} c) == {bool_src(truth)}"
        else:
            q = {"/": lambda: trunc_div(d, c["c"]), "%": lambda: d - trunc_div(d, c["c"]) * c["c"], ">>": lambda: d >> c["c"]}[op]()
            k_, m_ = (-q, 0) if q < 0 else (0, q)
            tail = f"q := d {op} c; k := {k_}; m := {m_}; q + k == m"
        return f"{f} :: () -> bool {{ a := {c['a']}; b := {c['b']}; d := a - b; c := {c['c']}; {tail} }}", f"{f}()"
    if k == "un":
        t = c["t"]
        return f"{f} :: (a: {t}) -> {t} {{ {c['op']}a }}", f"{f}({int_src(INT_BY_NAME[t], c['a'])})"
    if k == "cmp":
        t = c["t"]
        return f"{f} :: (a: {t}, b: {t}) -> bool {{ a {c['op']} b }}", f"{f}({int_src(INT_BY_NAME[t], c['a'])}, {int_src(INT_BY_NAME[t], c['b'])})"
    if k == "cast":
        s, d = INT_BY_NAME[c["s"]], INT_BY_NAME[c["d"]]
        implicit_ok = c["implicit"] and s.signed == d.signed and s.bits < d.bits and "size" not in s.name and "size" not in d.name
        body = "a" if implicit_ok else f"{d.name}.(a)"
        return f"{f} :: (a: {s.name}) -> {d.name} {{ {body} }}", f"{f}({int_src(s, c['a'])})"
    if k == "bool2int":
        return f"{f} :: (a: bool) -> {c['d']} {{ {c['d']}.(a) }}", f"{f}({bool_src(c['a'])})"
    if k == "char2int":
        return f"{f} :: (a: char) -> {c['d']} {{ {c['d']}.(a) }}", f"{f}(char.(u8.({c['a']})))"
    if k == "int2char":
        s = INT_BY_NAME[c["s"]]
        return f"{f} :: (a: {s.name}) -> u8 {{ u8.(char.(a)) }}", f"{f}({int_src(s, c['a'])})"
    if k == "boolops":
        return f"{f} :: (a: bool, b: bool) -> bool {{ a {c['op']} b }}", f"{f}({bool_src(c['a'])}, {bool_src(c['b'])})"
    if k == "fbin":
        t = c["t"]
        return f"{f} :: (a: {t}, b: {t}) -> {t} {{ a {c['op']} b }}", f"{f}({float_src(t, c['a'])}, {float_src(t, c['b'])})"
    if k == "fcmp":
        t = c["t"]
        return f"{f} :: (a: {t}, b: {t}) -> bool {{ a {c['op']} b }}", f"{f}({float_src(t, c['a'])}, {float_src(t, c['b'])})"
    if k == "i2f":
        s = INT_BY_NAME[c["s"]]
        return f"{f} :: (a: {s.name}) -> {c['d']} {{ {c['d']}.(a) }}", f"{f}({int_src(s, c['a'])})"
    if k == "f2i":
        return f"{f} :: (a: {c['s']}) -> {c['d']} {{ {c['d']}.(a) }}", f"{f}({float_src(c['s'], c['a'])})"
    if k == "f2f":
        return f"{f} :: (a: {c['s']}) -> {c['d']} {{ {c['d']}.(a) }}", f"{f}({float_src(c['s'], float(FLOATS[c['s']][0](c['a'])))})"
    raise KeyError(k)


def print_stmts(var, res):
    """statements printing variable `var` holding the result; returns (source, expected text)"""
    kind = res[0]
    if kind == "bool":
        return f'printf("%ld\\n", i64.({var}));', f"{1 if res[1] else 0}\n"
    if kind == "int":
        t = INT_BY_NAME[res[1]]
        v = res[2]
        if t.bits == 128:
            return (f'printf("%ld ", i64.({var} >> 64)); printf("%ld\\n", i64.(u64.({var})));', f"{to_i64(v >> 64)} {to_i64(v)}\n")
        return f'printf("%ld\\n", i64.({var}));', f"{to_i64(v)}\n"
    name, bits = res[1], res[2]
    return f'printf("%ld\\n", i64.(bits{32 if name == "f32" else 64}({var})));', f"{to_i64(bits)}\n"


def result_ty(res):
    return "bool" if res[0] == "bool" else res[1]


def build_program(cases, modes=("rt", "ct", "gc")):
    fns, main, expect, globs = [], [], [], []
    for i, c in enumerate(cases):
        res = expected(c)
        fn, call = case_fn(i, c)
        fns.append(fn)
        rt = result_ty(res)
        for mode in modes:
            var = f"r{i}{mode}"
            if mode == "gc":
                # the same call as the comptime initialiser of a global constant (its bytes become constant data)
                globs.append(f"{var} : {rt} : comptime {{ {call} }};")
                src, exp = print_stmts(var, res)
                main.append(f"    {src}")
                expect.append((i, mode, exp, res))
                continue
            init = call if mode == "rt" else f"comptime {{ {call} }}"
            src, exp = print_stmts(var, res)
            main.append(f"    {var} : {rt} = {init};\n    {src}")
            expect.append((i, mode, exp, res))
    src = PRELUDE + "\n".join(fns) + "\n" + "\n".join(globs) + "\nmain :: () {\n" + "\n".join(main) + "\n}\n"
    return src, expect


def describe(c):
    k = c["k"]
    if k == "weak":
        return f"weak {{uint}} locals: ({c['a']} - {c['b']}) {c['op']} {c['c']}"
    if k in ("bin", "cmp", "fbin", "fcmp", "boolops"):
        return f"{c.get('t', 'bool')}: {c['a']} {c['op']} {c['b']}"
    if k == "un":
        return f"{c['t']}: {c['op']}{c['a']}"
    return f"{k}: {c.get('s', '')} -> {c.get('d', '')} of {c['a']}"


def shape_key(c, mode):
    k = c["k"]
    if k in ("bin", "un", "cmp"):
        t = INT_BY_NAME[c["t"]]
        return f"C08:{mode}:{k}:{c['op']}:{'i' if t.signed else 'u'}{t.bits}"
    if k == "cast":
        return f"C08:{mode}:cast:{c['s']}->{c['d']}"
    if k in ("i2f", "f2i", "f2f"):
        return f"C08:{mode}:{k}:{c['s']}->{c['d']}"
    if k in ("fbin", "fcmp"):
        return f"C08:{mode}:{k}:{c['op']}:{c['t']}"
    return f"C08:{mode}:{k}:{c.get('op', c.get('d', c.get('s', '')))}"


def nontrivial(c):
    k = c["k"]
    if k == "weak":
        return c["a"] < c["b"]
    if k in ("bin", "un", "cmp"):
        b = set(boundary(INT_BY_NAME[c["t"]]))
        return c["a"] in b or c.get("b") in b
    if k == "cast":
        s, d = INT_BY_NAME[c["s"]], INT_BY_NAME[c["d"]]
        return s.bits != d.bits or s.signed != d.signed
    return True


def strategy(profile):
    keys = {f["key"] for f in core.load_findings("C08") if f.get("status") == "open"}
    avoid = set()
    if any("div.i128" in k or "rem.i128" in k for k in keys):
        avoid.add("wide-divmod")
    if any(":i2f:" in k or ":f2i:" in k for k in keys):
        avoid.add("wide-float")
    return st.lists(case(frozenset(avoid)), min_size=20, max_size=90)


def check(cases, stats, scratch, profile, modes=("rt", "ct", "gc")):
    src, expect = build_program(cases, modes)
    o = runner.run_case(scratch, {"main.capy": src}, compile_timeout=60)
    if o.kind in ("timeout", "exe-timeout"):
        stats.inconclusive += 1
        return
    if o.kind != "ran" or o.signal is not None:
        # find the culprit case by compiling each alone (only when the batch fails to build)
        for i, c in enumerate(cases):
            for mode in modes:
                s1, _ = build_program([c], (mode,))
                o1 = runner.run_case(scratch, {"main.capy": s1})
                if o1.kind != "ran" or o1.signal is not None:
                    key = o1.crash_key if o1.kind == "crash" else f"{shape_key(c, mode)}:{o1.kind}"
                    raise Fail(key, f"case `{describe(c)}` ({mode}) does not build/run: {o1.brief()}\n{o1.compiler_out[-1200:]}\n--- program ---\n{s1}",
                               {"cases": [c], "modes": [mode]})
        raise Fail("C08:batch-only-failure", f"the batch fails ({o.brief()}) but every case alone passes\n{o.compiler_out[-800:]}", {"cases": cases, "modes": list(modes)})
    got = o.stdout.decode("utf-8", "replace").split("\n")
    for line_no, (i, mode, exp, res) in enumerate(expect):
        c = cases[i]
        stats.evaluations += 1
        if nontrivial(c):
            stats.nontrivial.add(h64(json.dumps(c, sort_keys=True), mode))
        stats.cls(f"kind.{c['k']}.{mode}")
        g = got[line_no] + "\n" if line_no < len(got) else "<missing>"
        if g != exp:
            if res[0] == "float":
                try:
                    gb = int(g.strip()) & ((1 << (32 if res[1] == "f32" else 64)) - 1)
                    if is_nan_bits(gb, res[1]) and is_nan_bits(res[2], res[1]):
                        continue
                except ValueError:
                    pass
            s1, _ = build_program([c], (mode,))
            raise Fail(shape_key(c, mode), f"case `{describe(c)}` evaluated at {'run time' if mode == 'rt' else 'compile time' if mode == 'ct' else 'compile time as the initialiser of a global'}: expected {exp.strip()!r}, got {g.strip()!r}\n--- one-case program ---\n{s1}",
                       {"cases": [c], "modes": [mode]})
    if len(stats.samples) < 3:
        stats.sample({"cases": [describe(c) for c in cases[:6]], "expected_lines": [e[2].strip() for e in expect[:12]]})


def replay_payload(payload, scratch):
    st_ = core.Stats()
    try:
        check(payload["cases"], st_, scratch, "replay", tuple(payload.get("modes", ("rt", "ct", "gc"))))
    except Fail as f:
        return f.key
    return None


RULE = ("(type, operator, operands) cases over i8..i128, u8..u128, isize, usize, f32, f64, bool, char: binary/unary/comparison ops, all int->int cast "
        "pairs (explicit and implicit widening), bool/char casts, float ops, int<->float and float<->float casts; operands from boundary pools "
        "(0, +-1, MIN, MAX, +-1 of those, powers of two +-1) or random; ~20-90 cases per generated program, each evaluated at run time and inside "
        "comptime; one evaluation = one (case, mode) line compared with the big-int / numpy oracle. Non-trivial = an operand is a boundary value or "
        "the cast changes width or signedness (float cases always); distinct by (case, mode).")


def run(ctx):
    if ctx.replay:
        scratch = core.make_scratch("C08", "replay")
        payload = json.load(open(ctx.replay))
        ctx.evaluations = 1
        k = replay_payload(payload, scratch)
        if k:
            ctx.violations[k] = ("replayed case still fails", payload)
        shutil.rmtree(scratch, ignore_errors=True)
        return ctx.finish(RULE, False, [])
    total = 4000 if ctx.thorough else 160
    infra = core.hypothesis_search(ctx, "pyv.c08", total)
    scratch = core.make_scratch("C08", "kf")
    rc = ctx.finish(RULE, False, [
        "NaN results are compared as 'is a NaN', every other float by bit pattern",
        "float->int only where the truncated value fits the target; divisors are non-zero and MIN/-1 is excluded; shift amounts < width",
        "operands of 128-bit types and MIN values are assembled with shifts/subtractions because the lexer only accepts literals < 2^64",
    ], replayer=lambda p: replay_payload(p, scratch), min_nontrivial=50 if not ctx.collect_all() else 0)
    shutil.rmtree(scratch, ignore_errors=True)
    return 2 if infra and rc == 0 else rc
