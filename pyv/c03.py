"""C03 — each executed defer runs exactly once, in LIFO order, on every exit path.

One function with up to 4 nested blocks/loops, up to 3 defers per block at arbitrary positions and
exits of every kind at arbitrary positions. Every statement and every defer prints its own
character. Oracle: an interpreter with a per-block defer stack; a defer that was *not reached*
when its block is left is optional at its LIFO position (the statement only constrains reached
defers), everything else must match exactly."""
import json, shutil
from functools import lru_cache

from hypothesis import strategies as st

from . import runner, core
from .core import Fail, h64

CHARS = "abcdefghijklmnopqrstuvwxyzABCDEFGHIJKLMNOPQRSTUVWXYZ0123456789"

PRELUDE = """putchar :: (c: i32) -> i32 extern;
none :: () -> ?i32 { nil }
some :: () -> ?i32 { 5 }
"""

PRELUDE_NIL = """putchar :: (c: i32) -> i32 extern;
none :: () -> ?void { return nil; }
some :: () -> ?void { }
"""

PRELUDE_ERRU = """putchar :: (c: i32) -> i32 extern;
Err :: enum { Bad, Worse: u8 };
none :: () -> Err!i32 { e : Err = Err.Worse.(3); return e; }
some :: () -> Err!i32 { 5 }
"""


class Gen:
    def __init__(self, draw):
        self.draw = draw
        self.nchar = 0
        self.nlabel = 0
        self.nvar = 0

    def int(self, lo, hi):
        return self.draw(st.integers(lo, hi))

    def ch(self):
        c = CHARS[self.nchar % len(CHARS)]
        self.nchar += 1
        return c

    def block(self, depth, ctx):
        """ctx: loops=[(label or None, var)], labels=[label], returns list of statements (dicts)"""
        out = []
        ndefer = 0
        for _ in range(self.int(0, 5)):
            k = self.int(0, 11)
            if k <= 2:
                out.append({"k": "print", "c": self.ch()})
            elif k <= 5 and ndefer < 3:
                ndefer += 1
                out.append({"k": "defer", "c": self.ch()})
            elif k <= 8 and depth < 4:
                kind = ["block", "lblock", "while", "loop"][self.int(0, 3)]
                if kind == "block":
                    out.append({"k": "block", "label": None, "body": self.block(depth + 1, ctx)})
                elif kind == "lblock":
                    self.nlabel += 1
                    lab = f"b{self.nlabel}"
                    ctx2 = dict(ctx, labels=ctx["labels"] + [lab])
                    out.append({"k": "block", "label": lab, "body": self.block(depth + 1, ctx2)})
                else:
                    self.nvar += 1
                    var = f"i{self.nvar}"
                    lab = None
                    if self.int(0, 2) == 0:
                        self.nlabel += 1
                        lab = f"l{self.nlabel}"
                    ctx2 = dict(ctx, loops=ctx["loops"] + [(lab, var)])
                    out.append({"k": kind, "label": lab, "var": var, "n": self.int(1, 3), "body": self.block(depth + 1, ctx2)})
            else:
                out.extend(self.jump(ctx))
        return out

    def jump(self, ctx):
        opts = ["return", "try-nil", "try-some"]
        if ctx["loops"]:
            opts += ["break", "continue", "break", "continue"]
        if ctx["labels"]:
            opts += ["breakblock", "breakblock"]
        j = opts[self.int(0, len(opts) - 1)]
        if j == "try-some":
            return [{"k": "try", "nil": False}]
        if j == "return":
            s = {"k": "return", "v": self.int(0, 9)}
        elif j == "try-nil":
            s = {"k": "try", "nil": True}
        elif j == "break":
            lab, _ = ctx["loops"][self.int(0, len(ctx["loops"]) - 1)] if self.int(0, 1) else ctx["loops"][-1]
            s = {"k": "break", "label": lab if lab else None, "loop": True}
            if s["label"] is None and ctx["loops"][-1][0] is not None and self.int(0, 1):
                s["label"] = ctx["loops"][-1][0]
        elif j == "continue":
            lab, _ = ctx["loops"][self.int(0, len(ctx["loops"]) - 1)] if self.int(0, 1) else ctx["loops"][-1]
            s = {"k": "continue", "label": lab if lab else None}
        else:
            s = {"k": "break", "label": ctx["labels"][self.int(0, len(ctx["labels"]) - 1)], "loop": False}
        # guard: unconditional, on the flag, or on a loop counter value
        g = self.int(0, 3)
        if g == 0:
            return [s]
        if g == 1 or not ctx["loops"]:
            return [{"k": "if", "cond": ("flag", bool(self.int(0, 1))), "body": [s]}]
        _, var = ctx["loops"][self.int(0, len(ctx["loops"]) - 1)]
        return [{"k": "if", "cond": ("var", var, self.int(1, 3)), "body": [s]}]


@st.composite
def cases(draw):
    g = Gen(draw)
    body = g.block(1, {"loops": [], "labels": []})
    # the function returns an optional (`.try` propagates nil) or an error union (`.try` propagates the error)
    return {"body": body, "ret": draw(st.sampled_from(["opt", "opt", "opt", "erru", "erru", "nil"]))}


def strategy(profile):
    return cases()


def sweep_cases():
    """small skeletons, enumerated: a loop (or plain / labeled block) whose body has 0-2 defers, a nested block (or two) with 1-2
    defers, and one jump of every kind inside the innermost block, unconditional or on the flag; every result type"""
    out = []
    chars = iter("abcdefghijklmnopqrstuvwxyzABCDEFGHIJKLMNOPQRSTUVWXYZ0123456789" * 4)

    def defers(n):
        return [{"k": "defer", "c": next(chars)} for _ in range(n)]
    for ret in ("opt", "erru", "nil"):
        for outer in ("while", "loop", "lblock", "none"):
            for n_outer in (0, 2):
                for depth in (1, 2):
                    for n_inner in (1, 2):
                        for jump in ("continue", "break", "return", "try-nil", "breakblock", "continue-labeled"):
                            if jump in ("continue", "break", "continue-labeled") and outer not in ("while", "loop"):
                                continue
                            if jump == "breakblock" and outer != "lblock":
                                continue
                            for guard in ("uncond", "flag"):
                                chars = iter("abcdefghijklmnopqrstuvwxyzABCDEFGHIJKLMNOPQRSTUVWXYZ0123456789" * 4)
                                lab = "l1" if jump == "continue-labeled" else None
                                if jump in ("continue", "continue-labeled"):
                                    j = {"k": "continue", "label": lab}
                                elif jump == "break":
                                    j = {"k": "break", "label": None, "loop": True}
                                elif jump == "return":
                                    j = {"k": "return", "v": 7}
                                elif jump == "try-nil":
                                    j = {"k": "try", "nil": True}
                                else:
                                    j = {"k": "break", "label": "b1", "loop": False}
                                js = [j] if guard == "uncond" else [{"k": "if", "cond": ("flag", True), "body": [j]}]
                                inner = defers(n_inner) + [{"k": "print", "c": next(chars)}] + js + [{"k": "print", "c": next(chars)}]
                                for _ in range(depth - 1):
                                    inner = defers(1) + [{"k": "block", "label": None, "body": inner}, {"k": "print", "c": next(chars)}]
                                body = defers(n_outer) + [{"k": "block", "label": None, "body": inner}, {"k": "print", "c": next(chars)}]
                                if outer in ("while", "loop"):
                                    top = [{"k": outer, "label": lab, "var": "i1", "n": 2, "body": body}]
                                elif outer == "lblock":
                                    top = [{"k": "block", "label": "b1", "body": body}]
                                else:
                                    top = body
                                out.append({"body": defers(1) + top + [{"k": "print", "c": next(chars)}], "ret": ret})
    return out


# ------------------------------------------------------------------------------------------------
# printer

def pc(c):
    return f"putchar({ord(c)});"


def src_stmts(stmts, ind, ret_nil=False):
    pad = "    " * ind
    out = ""
    for s in stmts:
        k = s["k"]
        if k == "print":
            out += f"{pad}{pc(s['c'])}\n"
        elif k == "defer":
            out += f"{pad}defer {pc(s['c'])}\n"
        elif k == "block":
            lab = f"`{s['label']}: " if s["label"] else ""
            out += f"{pad}{lab}{{\n{src_stmts(s['body'], ind + 1, ret_nil)}{pad}}};\n"
        elif k == "while":
            lab = f"`{s['label']}: " if s["label"] else ""
            out += f"{pad}{s['var']} : i32 = 0;\n{pad}{lab}while {s['var']} < {s['n']} {{\n{pad}    {s['var']} += 1;\n{src_stmts(s['body'], ind + 1, ret_nil)}{pad}}};\n"
        elif k == "loop":
            lab = f"`{s['label']}: " if s["label"] else ""
            out += f"{pad}{s['var']} : i32 = 0;\n{pad}{lab}loop {{\n{pad}    {s['var']} += 1;\n{pad}    if {s['var']} > {s['n']} {{ break; }};\n{src_stmts(s['body'], ind + 1, ret_nil)}{pad}}};\n"
        elif k == "if":
            c = s["cond"]
            cond = ("flag" if c[1] else "!flag") if c[0] == "flag" else f"{c[1]} == {c[2]}"
            out += f"{pad}if {cond} {{\n{src_stmts(s['body'], ind + 1, ret_nil)}{pad}}};\n"
        elif k == "return":
            out += f"{pad}return nil;\n" if ret_nil else f"{pad}return {s['v']};\n"
        elif k == "try":
            if ret_nil:
                out += f"{pad}{'none' if s['nil'] else 'some'}().try;\n"
            else:
                out += f"{pad}{{ t : i32 = {'none' if s['nil'] else 'some'}().try; }};\n"
        elif k == "break":
            out += f"{pad}break{' `' + s['label'] if s['label'] else ''};\n"
        elif k == "continue":
            out += f"{pad}continue{' `' + s['label'] if s['label'] else ''};\n"
    return out


def program_src(case):
    if case.get("ret") == "nil":
        # a function whose result type is `nil`: `.try` on a ?void propagates by leaving the function
        body = src_stmts(case["body"], 1, ret_nil=True)
        return (PRELUDE_NIL + "f :: (flag: bool) -> nil {\n" + body + "    nil\n}\n"
                "main :: () {\n    f(true);\n    putchar(10);\n    f(false);\n    putchar(10);\n}\n")
    if case.get("ret") == "erru":
        return (PRELUDE_ERRU + "f :: (flag: bool) -> Err!i32 {\n" + src_stmts(case["body"], 1) + "    42\n}\n"
                "show :: (r: Err!i32) {\n    switch v in r {\n        i32 => { putchar(48 + v % 10); },\n        Err => { putchar(45); },\n    };\n}\n"
                "main :: () {\n    show(f(true));\n    putchar(10);\n    show(f(false));\n    putchar(10);\n}\n")
    return (PRELUDE + "f :: (flag: bool) -> ?i32 {\n" + src_stmts(case["body"], 1) + "    42\n}\n"
            "show :: (r: ?i32) {\n    switch v in r {\n        i32 => { putchar(48 + v % 10); },\n        nil => { putchar(45); },\n    };\n}\n"
            "main :: () {\n    show(f(true));\n    putchar(10);\n    show(f(false));\n    putchar(10);\n}\n")


# ------------------------------------------------------------------------------------------------
# oracle

class _Jump(Exception):
    def __init__(self, kind, label=None, value=None):
        self.kind, self.label, self.value = kind, label, value


class Oracle:
    def __init__(self):
        self.tokens = []        # (char, mandatory)
        self.steps = 0
        self.nontrivial = False

    def emit(self, c, mandatory=True):
        self.tokens.append((c, mandatory))

    def run_block(self, stmts, flag, env, pending_outer):
        """executes a block; pending_outer = number of reached, pending defers in enclosing blocks of this call"""
        reached = []
        static = [s for s in stmts if s["k"] == "defer"]
        try:
            for s in stmts:
                self.steps += 1
                if self.steps > 5000:
                    raise _Jump("steplimit")
                k = s["k"]
                if k == "print":
                    self.emit(s["c"])
                elif k == "defer":
                    reached.append(s)
                elif k == "block":
                    try:
                        self.run_block(s["body"], flag, env, pending_outer + len(reached))
                    except _Jump as j:
                        # an unlabeled break targets the innermost labeled block or loop
                        if j.kind == "break" and s["label"] is not None and (j.label is None or j.label == s["label"]):
                            pass
                        else:
                            raise
                elif k in ("while", "loop"):
                    env[s["var"]] = 0
                    while True:
                        env[s["var"]] += 1
                        if env[s["var"]] > s["n"]:
                            break
                        try:
                            self.run_block(s["body"], flag, env, pending_outer + len(reached))
                        except _Jump as j:
                            if j.kind == "break" and (j.label is None or j.label == s["label"]):
                                break
                            if j.kind == "continue" and (j.label is None or j.label == s["label"]):
                                continue
                            raise
                elif k == "if":
                    c = s["cond"]
                    ok = (flag == c[1]) if c[0] == "flag" else (env.get(c[1]) == c[2])
                    if ok:
                        self.run_block(s["body"], flag, env, pending_outer + len(reached))
                elif k == "return":
                    if pending_outer + len(reached) > 0:
                        self.nontrivial = True
                    raise _Jump("return", value=s["v"])
                elif k == "try":
                    if s["nil"]:
                        if pending_outer + len(reached) > 0:
                            self.nontrivial = True
                        raise _Jump("return", value=None)
                elif k == "break":
                    if pending_outer + len(reached) > 0:
                        self.nontrivial = True
                    raise _Jump("break", s["label"], "loop" if s["loop"] else "block")
                elif k == "continue":
                    if pending_outer + len(reached) > 0:
                        self.nontrivial = True
                    raise _Jump("continue", s["label"])
        finally:
            # leaving the block (normally or by a jump): reached defers LIFO, unreached ones optional
            for d in reversed(static):
                self.emit(d["c"], mandatory=any(d is r for r in reached))


def expected_tokens(case):
    toks = []
    nontrivial = False
    for flag in (True, False):
        o = Oracle()
        env = {}
        try:
            o.run_block(case["body"], flag, env, 0)
            result = 42
        except _Jump as j:
            if j.kind == "return":
                result = j.value
            elif j.kind == "steplimit":
                return None, False
            else:
                raise AssertionError(f"jump escaped: {j.kind} {j.label}")
        toks += o.tokens
        if case.get("ret") != "nil":
            toks.append(("-" if result is None else str(result % 10), True))
        toks.append(("\n", True))
        nontrivial = nontrivial or o.nontrivial
    return toks, nontrivial


def matches(tokens, actual):
    # set of positions in `actual` reachable after consuming a prefix of the tokens
    positions = {0}
    for c, mandatory in tokens:
        nxt = set()
        for j in positions:
            if j < len(actual) and actual[j] == c:
                nxt.add(j + 1)
            if not mandatory:
                nxt.add(j)
        positions = nxt
        if not positions:
            return False
    return len(actual) in positions


def check(case, stats, scratch, profile):
    toks, nontrivial = expected_tokens(case)
    if toks is None:
        stats.cls("step-limit")
        return
    src = program_src(case)
    o = runner.run_case(scratch, {"main.capy": src})
    stats.evaluations += 1
    if nontrivial:
        stats.nontrivial.add(h64(src))
    replay = {"case": case}
    if o.kind in ("timeout", "exe-timeout"):
        stats.inconclusive += 1
        return
    if o.kind == "crash":
        raise Fail(o.crash_key, f"compiler crashed\n{o.compiler_out[-1200:]}\n--- program ---\n{src}", replay)
    if o.kind == "rejected":
        raise Fail("C03:rejected:" + runner.normalise_msg(o.errors[0] if o.errors else "?")[:80], f"program rejected\n{o.compiler_out[-1500:]}\n--- program ---\n{src}", replay)
    if o.kind != "ran" or o.signal is not None:
        raise Fail(f"C03:{o.kind}:{o.signal}", f"{o.brief()}\n--- program ---\n{src}", replay)
    got = o.stdout.decode("utf-8", "replace")
    if not matches(tuple(toks), got):
        exp = "".join(c if m else f"[{c}]" for c, m in toks)
        kinds = sorted({s for s in _kinds(case["body"])})
        raise Fail("C03:defer-order", f"output {got!r} does not match the expected pattern {exp!r} ([x] = optional: defer not reached when its block was left)\njump kinds present: {kinds}\n--- program ---\n{src}", replay)
    if nontrivial:
        stats.sample({"program": src, "stdout": got})
    for kk in _kinds(case["body"]):
        stats.cls("has." + kk)
    stats.cls("returns." + case.get("ret", "opt"))


def _kinds(stmts):
    for s in stmts:
        yield s["k"] if s["k"] != "try" else ("try-nil" if s["nil"] else "try-some")
        if "body" in s:
            yield from _kinds(s["body"])


def replay_payload(payload, scratch):
    st_ = core.Stats()
    try:
        check(payload["case"], st_, scratch, "replay")
    except Fail as f:
        return f.key
    return None


RULE = ("a deterministic sweep of small skeletons (loop / labeled block / plain body with 0-2 defers, 1-2 nested blocks with 1-2 defers, one jump of every kind, unconditional or on "
        "the flag, result type ?i32 / Err!i32 / nil) and generated functions: one function with <= 4 nested blocks / labeled blocks / while / loop, <= 3 defers per block at arbitrary positions, and break (labeled or not), "
        "continue, return and `.try` on nil / on an error (the function returns ?i32 or Err!i32) at arbitrary positions (unconditional, on a flag, or on a loop counter value); the function is run with flag = true and false. "
        "Non-trivial = at least one jump leaves a block holding a reached, pending defer; distinct by program text.")


def run(ctx):
    if ctx.replay:
        scratch = core.make_scratch("C03", "replay")
        payload = json.load(open(ctx.replay))
        ctx.evaluations = 1
        k = replay_payload(payload, scratch)
        if k:
            ctx.violations[k] = ("replayed case still fails", payload)
        shutil.rmtree(scratch, ignore_errors=True)
        return ctx.finish(RULE, False, [])
    infra0 = core.run_batches(ctx, "pyv.c03", sweep_cases())
    total = 16000 if ctx.thorough else 1280
    infra = core.hypothesis_search(ctx, "pyv.c03", total)
    scratch = core.make_scratch("C03", "kf")
    rc = ctx.finish(RULE, False, [
        "a defer that was not reached when its block is left may or may not run (the statement is silent; README says the expression moves to the end of the scope)",
        "statements after an unconditional jump are dead code; they are still generated because the compiler must accept them",
    ], replayer=lambda p: replay_payload(p, scratch), min_nontrivial=50 if not ctx.collect_all() else 0)
    shutil.rmtree(scratch, ignore_errors=True)
    return 2 if (infra or infra0) and rc == 0 else rc
