"""C20 — results do not depend on the order of definitions or files.

A generated well-typed program (types, consts, comptime consts, functions incl. mutual use) is
re-arranged: random permutations of its top-level definitions and random partitions into up to
three files (cross-file references rewritten to `file.name`, every file imports the files it
references, import cycles allowed). Oracle (metamorphic): every arrangement has the same
accept/reject outcome and, when accepted, the same stdout and exit status as the base arrangement
and as the reference interpreter."""
import json, re, shutil

from hypothesis import strategies as st

from . import runner, core, interp, gen, c01
from .core import Fail, h64
from .lang import *  # noqa

FEATURES = set(gen.FEATURES) - {"faults"}


# ------------------------------------------------------------------------------------------------
# "web" programs: constants, aliases, comptime constants, types, type aliases, annotated constants
# and (recursive) functions that refer to each other in every direction

REC_KEY = "C20:web-rejected:error: circular definition, `f` has not yet been resolved"


def rejected_key(errors):
    """the first diagnostic with backticked payloads reduced to the *kind* of definition they name (K constant, f function, T type)"""
    msg = errors[0] if errors else "?"
    msg = re.sub(r"`(?:\w+::)*([A-Za-z]+?)\d+\w*`", r"`\1`", msg)
    msg = re.sub(r"`[^`]*[^A-Za-z`][^`]*`", "`_`", msg)
    return "C20:web-rejected:" + runner.normalise_msg(msg)[:80]


def web_program(draw):
    """returns (items [(name, src)], main source, expected stdout)"""
    n = draw(st.integers(3, 9))
    defs = []
    consts, types, fns = {}, {}, {}   # consts: name -> (value, 'usize' | 'i64' | distinct type name)
    out = []
    recursive = set()
    # listed open finding: a comptime constant that calls a recursive function is rejected ("circular definition")
    # when the function is processed after it; while it is listed, such constants only call non-recursive functions
    avoid_rec = any(f.get("status") == "open" and f["key"] == REC_KEY for f in core.load_findings("C20"))

    def pick(keys):
        ks = sorted(keys)
        return ks[draw(st.integers(0, len(ks) - 1))]

    def usizes():
        return [k for k, (_, t) in consts.items() if t == "usize"]
    for i in range(n):
        kinds = ["const-lit", "const-lit", "distinct", "fn0"]
        if consts:
            kinds += ["const-alias", "const-alias"]
        if usizes():
            kinds += ["const-comptime", "fn", "fn", "struct-len"]
        if [f for f in fns if not (avoid_rec and f in recursive)]:
            kinds += ["const-comptime-call"]
        if types:
            kinds += ["type-alias"]
        if any(d[0] == "distinct" for d in types.values()):
            kinds += ["const-annotated", "const-annotated", "const-annotated"]
        k = kinds[draw(st.integers(0, len(kinds) - 1))]
        if k == "const-lit":
            v = draw(st.integers(1, 9))
            consts[f"K{i}"] = (v, "usize")
            defs.append((f"K{i}", f"K{i} : usize : {v};"))
        elif k == "const-alias":
            j = pick(consts)
            consts[f"K{i}"] = consts[j]
            defs.append((f"K{i}", f"K{i} :: {j};"))
        elif k == "const-comptime":
            j = pick(usizes())
            c = draw(st.integers(1, 5))
            consts[f"K{i}"] = (consts[j][0] * 2 + c, "usize")
            defs.append((f"K{i}", f"K{i} :: comptime {{ {j} * 2 + {c} }};"))
        elif k == "const-comptime-call":
            f = pick([f for f in fns if not (avoid_rec and f in recursive)])
            a = draw(st.integers(0, 4))
            consts[f"K{i}"] = (fns[f](a), "i64")
            defs.append((f"K{i}", f"K{i} :: comptime {{ {f}({a}) }};"))
        elif k == "fn0":
            c = draw(st.integers(1, 9))
            fns[f"f{i}"] = (lambda x, c=c: x * 3 + c)
            defs.append((f"f{i}", f"f{i} :: (x: i64) -> i64 {{ x * 3 + {c} }}"))
        elif k == "fn":
            j = pick(usizes())
            cv = consts[j][0]
            if draw(st.booleans()):
                fns[f"f{i}"] = (lambda x, cv=cv: cv if x <= 0 else cv + x * (x + 1) // 2)
                recursive.add(f"f{i}")
                defs.append((f"f{i}", f"f{i} :: (x: i64) -> i64 {{ if x <= 0 {{ i64.({j}) }} else {{ x + f{i}(x - 1) }} }}"))
            else:
                fns[f"f{i}"] = (lambda x, cv=cv: x * cv + 1)
                defs.append((f"f{i}", f"f{i} :: (x: i64) -> i64 {{ x * i64.({j}) + 1 }}"))
        elif k == "struct-len":
            j = pick(usizes())
            types[f"T{i}"] = ("struct", consts[j][0])
            defs.append((f"T{i}", f"T{i} :: struct {{ a: i64, b: [{j}]u8 }};"))
        elif k == "distinct":
            types[f"T{i}"] = ("distinct", None)
            defs.append((f"T{i}", f"T{i} :: distinct i64;"))
        elif k == "type-alias":
            j = pick(types)
            types[f"T{i}"] = types[j]
            defs.append((f"T{i}", f"T{i} :: {j};"))
        else:  # a constant whose annotation names a user-defined (possibly later-defined) type
            t = pick([t for t, d in types.items() if d[0] == "distinct"])
            v = draw(st.integers(1, 9))
            consts[f"K{i}"] = (v, t)
            defs.append((f"K{i}", f"K{i} : {t} : {v};"))
            if draw(st.booleans()):
                # ... and another global that reads it
                consts[f"K{i}r"] = (v, t)
                defs.append((f"K{i}r", f"K{i}r :: K{i};"))
    body = []
    for name in sorted(consts):
        v, t = consts[name]
        body.append(f'    printf("%ld\\n", {name});' if t == "i64" else f'    printf("%ld\\n", i64.({name}));')
        out.append(str(v))
    for name in sorted(fns):
        a = draw(st.integers(0, 5))
        body.append(f'    printf("%ld\\n", {name}({a}));')
        out.append(str(fns[name](a)))
    for name in sorted(types):
        kind, ln = types[name]
        if kind == "struct":
            body.append(f'    v{name} : {name}; printf("%ld\\n", i64.(v{name}.b.len));')
            out.append(str(ln))
            if usizes():
                u = sorted(usizes())[0]
                body.append(f'    a{name} : [{u}]{name}; printf("%ld\\n", i64.(a{name}.len));')
                out.append(str(consts[u][0]))
        else:
            body.append(f'    d{name} : {name} = {name}.(7); printf("%ld\\n", i64.(d{name}));')
            out.append("7")
    main_src = "main :: () {\n" + "\n".join(body) + "\n}\n"
    return defs, main_src, "".join(o + "\n" for o in out)


PATTERNS = [
    # (items, main body lines, expected output)
    ([("T", "T :: distinct i64;"), ("K", "K : T : 3;"), ("R", "R :: K;")],
     ['printf("%ld\\n", i64.(K));', 'printf("%ld\\n", i64.(R));'], "3\n3\n"),
    ([("K", "K : usize : 4;"), ("A", "A :: K;"), ("S", "S :: struct { a: i64, b: [A]u8 };")],
     ['v : S; printf("%ld\\n", i64.(v.b.len));', 'printf("%ld\\n", i64.(A));'], "4\n4\n"),
    ([("K", "K : usize : 2;"), ("g", "g :: (x: i64) -> i64 { x * i64.(K) + 1 }"), ("N", "N :: comptime { g(5) };"), ("M", "M :: N;")],
     ['printf("%ld\\n", N);', 'printf("%ld\\n", M);', 'printf("%ld\\n", g(1));'], "11\n11\n3\n"),
    ([("T", "T :: distinct i64;"), ("U", "U :: T;"), ("K", "K : U : 5;"), ("R", "R :: K;")],
     ['printf("%ld\\n", i64.(R));', 'd : U = U.(7); printf("%ld\\n", i64.(d));'], "5\n7\n"),
    ([("K", "K :: comptime { usize.(2) + 3 };"), ("A", "A :: K;"), ("S", "S :: struct { b: [A]u8 };"), ("L", "L : usize : comptime { A * 2 };")],
     ['v : S; printf("%ld\\n", i64.(v.b.len));', 'w : [L]S; printf("%ld\\n", i64.(w.len));'], "5\n10\n"),
    ([("E", "E :: enum { A, B: T };"), ("T", "T :: struct { x: K2 };"), ("K2", "K2 :: i32;"), ("mk", "mk :: () -> E { E.B.(T.{ x = 6 }) }")],
     ['switch v in mk() { .A => { puts("A"); }, .B => { printf("%ld\\n", i64.(v.x)); }, };'], "6\n"),
]


def sweep_cases():
    """every permutation of every pattern x {one file, each item alone in a second file, all items in a second file}"""
    import itertools
    out = []
    for items, body, expected in PATTERNS:
        n = len(items)
        main_src = "main :: () {\n" + "\n".join("    " + l for l in body) + "\n}\n"
        splits = [[0] * n] + [[1 if j == i else 0 for j in range(n)] for i in range(n)] + [[1] * n]
        arrangements = [{"perm": list(perm), "files": sp} for perm in itertools.permutations(range(n)) for sp in splits]
        # batches of 12 arrangements
        for k in range(0, len(arrangements), 12):
            out.append({"web": {"items": [list(x) for x in items], "main": main_src, "expected": expected}, "arrangements": arrangements[k:k + 12], "sweep": True})
    return out


@st.composite
def web_cases(draw, n_arr):
    items, main_src, expected = web_program(draw)
    arrangements = []
    for _ in range(n_arr):
        perm = draw(st.permutations(list(range(len(items)))))
        nfiles = draw(st.integers(1, 3))
        assign = [draw(st.integers(0, nfiles - 1)) for _ in items]
        arrangements.append({"perm": list(perm), "files": assign})
    return {"web": {"items": items, "main": main_src, "expected": expected}, "arrangements": arrangements}


@st.composite
def cases(draw, n_arr):
    avoid = c01.current_avoid()
    p = draw(gen.programs({"features": FEATURES, "avoid": avoid, "max_fns": 5, "max_types": 4, "max_stmts": 8}))
    items = top_level_items(p)
    arrangements = []
    for _ in range(n_arr):
        perm = draw(st.permutations(list(range(len(items)))))
        nfiles = draw(st.integers(1, 3))
        assign = [draw(st.integers(0, nfiles - 1)) for _ in items]
        arrangements.append({"perm": list(perm), "files": assign})
    return {"program": p, "arrangements": arrangements}


def strategy(profile):
    n_arr = 6 if "thorough" in profile else 4
    return web_cases(n_arr) if profile.startswith("web") else cases(n_arr)


def top_level_items(p):
    """[(name, source)] for every top-level definition except main and the prelude"""
    items = []
    for t in p.types:
        items.append((t.name, f"{t.name} :: {t.decl()};"))
    for name, ty, lit in p.consts:
        plain = ("true" if lit.v else "false") if isinstance(ty, Bool) else str(lit.v)
        items.append((name, f"{name} : {ty.src()} : {plain};"))
    for f in p.fns:
        if f.name != "main":
            items.append((f.name, fn_src(f)))
    return items


FILE_NAMES = ["main", "aa", "bb"]


def arrange(p, arr):
    """files {name: text} for one arrangement; main.capy always holds the prelude and main"""
    return arrange_items(top_level_items(p), fn_src(p.fn("main")), arr)


def arrange_items(items, main_fn, arr):
    where = {"main": 0, "printf": 0, "puts": 0, "putchar": 0}
    for idx, (name, _) in enumerate(items):
        where[name] = arr["files"][idx]
    order = arr["perm"]
    texts = {0: [], 1: [], 2: []}
    for idx in order:
        name, src = items[idx]
        texts[where[name]].append((name, src))
    texts[0].append(("main", main_fn))
    out = {}
    used_files = sorted({0} | set(arr["files"]))
    for fi in used_files:
        body = ""
        refs = set()
        for name, src in texts[fi]:
            def repl(m, src=src):
                w = m.group(0)
                # string literals, the defined name itself (position 0) and member names (after a `.`) stay as they are
                if w.startswith('"') or m.start() == 0 or src[m.start() - 1] == "." or w not in where or where[w] == fi:
                    return w
                refs.add(where[w])
                return f"{FILE_NAMES[where[w]]}_f.{w}"
            body += re.sub(r'"[^"\n]*"|\b[A-Za-z_][A-Za-z0-9_]*\b', repl, src) + "\n"
        header = (PRELUDE_PLAIN if fi == 0 else "")
        for r in sorted(refs):
            header += f'{FILE_NAMES[r]}_f :: #import("{FILE_NAMES[r]}.capy");\n'
        out[f"{FILE_NAMES[fi]}.capy"] = header + "\n" + body
    return out


def outcome(o):
    if o.kind == "ran":
        return ("ran", o.stdout.decode("utf-8", "replace"), o.status, o.signal)
    if o.kind == "rejected":
        kinds = sorted({runner.normalise_msg(e)[:60] for e in o.errors})
        return ("rejected", tuple(kinds))
    return (o.kind, o.crash_key)


def check_web(case, stats, scratch, profile):
    w = case["web"]
    base_files = arrange_items(w["items"], w["main"], {"perm": list(range(len(w["items"]))), "files": [0] * len(w["items"])})
    results = []
    kinds = sorted({re.match(r"[A-Za-z]+", n).group(0) + ("=" + ("comptime" if "comptime" in s_ else "alias" if re.match(r"\w+ :: \w+;$", s_) else "plain")) for n, s_ in w["items"]})
    for arr in [None] + case["arrangements"]:
        files = base_files if arr is None else arrange_items(w["items"], w["main"], arr)
        stats.evaluations += 1
        multi = any("#import(" in t for t in files.values())
        stats.cls(f"web.files.{len(files)}")
        o = runner.run_case(scratch, files)
        replay = {"files": files, "expected": w["expected"]}
        desc = "\n".join(f"// {n}\n{t}" for n, t in files.items())
        if o.kind in ("timeout", "exe-timeout"):
            stats.inconclusive += 1
            continue
        shape = ("multi-file" if multi else "one-file")
        if o.kind == "crash":
            raise Fail(o.crash_key, f"compiler crashed on a {shape} arrangement of a definitions web ({kinds})\n{o.compiler_out[-1000:]}\n--- files ---\n{desc}", replay)
        if o.kind == "rejected":
            raise Fail(rejected_key(o.errors), f"a valid definitions web is rejected in this arrangement: {o.errors[:3]}\n--- files ---\n{desc}", replay)
        if o.kind != "ran" or o.signal is not None:
            raise Fail(f"C20:web:{o.kind}", f"{o.brief()}\n--- files ---\n{desc}", replay)
        got = o.stdout.decode("utf-8", "replace")
        if got != w["expected"]:
            raise Fail(f"C20:web-behaviour-differs:{shape}", f"expected {w['expected']!r}, got {got!r}\n--- files ---\n{desc}", replay)
        results.append(multi)
    if any(results):
        stats.nontrivial.add(h64(json.dumps(w["items"])))
        stats.sample({"web_items": [s_ for _, s_ in w["items"]][:8]})


def check(case, stats, scratch, profile):
    if "web" in case:
        return check_web(case, stats, scratch, profile)
    p = case["program"]
    try:
        it = interp.Interp(p)
        out, status, fault = it.run_main()
    except interp.StepLimit:
        stats.cls("interp-step-limit")
        return
    base_src = program_src(p)
    base = runner.run_case(scratch, {"main.capy": base_src})
    if base.kind in ("timeout", "exe-timeout"):
        stats.inconclusive += 1
        return
    if base.kind == "crash":
        raise Fail(base.crash_key, f"compiler crashed on the base arrangement\n{base.compiler_out[-1000:]}\n--- program ---\n{base_src}", {"files": {"main.capy": base_src}})
    b = outcome(base)
    nontrivial = False
    for arr in case["arrangements"]:
        files = arrange(p, arr)
        stats.evaluations += 1
        multi = any("#import(" in t for t in files.values())
        stats.cls(f"files.{len(files)}")
        stats.cls("with-cross-file-reference" if multi else "no-cross-file-reference")
        if any("#import(\"main.capy\")" in t for t in files.values()):
            stats.cls("import-cycle-through-main")
        o = runner.run_case(scratch, files)
        replay = {"base": {"main.capy": base_src}, "arranged": files}
        if o.kind in ("timeout", "exe-timeout"):
            stats.inconclusive += 1
            continue
        if o.kind == "crash":
            raise Fail(o.crash_key, f"compiler crashed on an arrangement the base of which gives {b[0]}\n{o.compiler_out[-1000:]}\n--- files ---\n" + "\n".join(f"// {n}\n{t}" for n, t in files.items()), replay)
        a = outcome(o)
        if a[0] != b[0]:
            raise Fail(f"C20:outcome-differs:{b[0]}->{a[0]}", f"base arrangement: {b[0]}; this arrangement ({len(files)} file(s)): {a[0]} {o.errors[:2]}\n--- files ---\n" + "\n".join(f"// {n}\n{t}" for n, t in files.items()) + f"\n--- base ---\n{base_src}", replay)
        if a[0] == "ran" and a != b:
            raise Fail("C20:behaviour-differs", f"base prints {b[1]!r} status {b[2]}; this arrangement prints {a[1]!r} status {a[2]}\n--- files ---\n" + "\n".join(f"// {n}\n{t}" for n, t in files.items()), replay)
        if multi:
            nontrivial = True
    if b[0] == "ran" and not fault and (b[1] != out or b[2] != status):
        stats.cls("base-differs-from-interpreter(C01's business)")
    if nontrivial:
        stats.nontrivial.add(h64(base_src))
        stats.sample({"arranged_files": {n: t[:500] for n, t in arrange(p, case["arrangements"][0]).items()}})


def replay_payload(payload, scratch):
    if "expected" in payload:
        o = runner.run_case(scratch, payload["files"])
        multi = any("#import(" in t for t in payload["files"].values())
        shape = "multi-file" if multi else "one-file"
        if o.kind == "crash":
            return o.crash_key
        if o.kind == "rejected":
            return rejected_key(o.errors)
        if o.kind != "ran" or o.signal is not None:
            return f"C20:web:{o.kind}"
        return None if o.stdout.decode("utf-8", "replace") == payload["expected"] else f"C20:web-behaviour-differs:{shape}"
    b = outcome(runner.run_case(scratch, payload["base"]))
    o = runner.run_case(scratch, payload["arranged"])
    if o.kind == "crash":
        return o.crash_key
    a = outcome(o)
    if a[0] != b[0]:
        return f"C20:outcome-differs:{b[0]}->{a[0]}"
    if a[0] == "ran" and a != b:
        return "C20:behaviour-differs"
    return None


RULE = ("a deterministic sweep: 6 small webs of 3-4 interdependent definitions (annotated constant / reader / later-defined type, alias as array length, comptime constants through functions, "
        "type aliases, enum-struct-alias chains) in every permutation x {one file, each item alone in a second file, all in a second file}; then, half of the generated cases: a generated web of definitions (literal / alias / comptime constants, comptime constants calling functions, recursive functions, structs whose array length is a "
        "constant, distinct types, type aliases, constants annotated with later-defined types) printed by main, with the expected output computed independently; the other half: "
        "base = a generated well-typed program (C01 generator: types, consts, functions calling each other); arrangements = random permutations of the top-level definitions and random "
        "partitions into 1-3 files with references rewritten to `file.name` and mutual imports (cycles allowed); 4 (quick) / 6 (thorough) arrangements per program; one evaluation = one "
        "arrangement compared with the base. Non-trivial = the program has an arrangement with >= 2 files (which always contains a cross-file or forward reference); distinct by base program.")


def run(ctx):
    if ctx.replay:
        scratch = core.make_scratch("C20", "replay")
        payload = json.load(open(ctx.replay))
        ctx.evaluations = 1
        k = replay_payload(payload, scratch)
        if k:
            ctx.violations[k] = ("replayed case still fails", payload)
        shutil.rmtree(scratch, ignore_errors=True)
        return ctx.finish(RULE, False, [])
    infra0 = core.run_batches(ctx, "pyv.c20", sweep_cases())
    total = 4000 if ctx.thorough else 400
    infra = core.hypothesis_search(ctx, "pyv.c20", total, profiles=("thorough", "web-thorough") if ctx.thorough else ("quick", "web-quick"))
    scratch = core.make_scratch("C20", "kf")
    rc = ctx.finish(RULE, False, [
        "the extern prelude lives in main.capy only and is referenced as main_f.printf from other files (two files declaring the same extern is a separate, listed C06 defect)",
        "for rejected programs only the set of diagnostic kinds is compared, not their order",
    ], replayer=lambda p: replay_payload(p, scratch), min_nontrivial=50 if not ctx.collect_all() else 0)
    shutil.rmtree(scratch, ignore_errors=True)
    return 2 if (infra or infra0) and rc == 0 else rc
