"""C20 — results do not depend on the order of definitions or files.

A generated well-typed program (types, consts, comptime consts, functions incl. mutual use) is
re-arranged: random permutations of its top-level definitions and random partitions into up to
three files (cross-file references rewritten to `file.name`, every file imports the files it
references, import cycles allowed). Oracle (metamorphic): every arrangement has the same
accept/reject outcome and, when accepted, the same stdout and exit status as the base arrangement
and as the reference interpreter."""
import json, re, shutil

from hypothesis import strategies as st

from . import runner, core, interp, gen, c01
from .core import Fail, h64
from .lang import *  # noqa

FEATURES = set(gen.FEATURES) - {"faults"}


@st.composite
def cases(draw, n_arr):
    avoid = c01.current_avoid()
    p = draw(gen.programs({"features": FEATURES, "avoid": avoid, "max_fns": 5, "max_types": 4, "max_stmts": 8}))
    items = top_level_items(p)
    arrangements = []
    for _ in range(n_arr):
        perm = draw(st.permutations(list(range(len(items)))))
        nfiles = draw(st.integers(1, 3))
        assign = [draw(st.integers(0, nfiles - 1)) for _ in items]
        arrangements.append({"perm": list(perm), "files": assign})
    return {"program": p, "arrangements": arrangements}


def strategy(profile):
    return cases(6 if profile == "thorough" else 4)


def top_level_items(p):
    """[(name, source)] for every top-level definition except main and the prelude"""
    items = []
    for t in p.types:
        items.append((t.name, f"{t.name} :: {t.decl()};"))
    for name, ty, lit in p.consts:
        plain = ("true" if lit.v else "false") if isinstance(ty, Bool) else str(lit.v)
        items.append((name, f"{name} : {ty.src()} : {plain};"))
    for f in p.fns:
        if f.name != "main":
            items.append((f.name, fn_src(f)))
    return items


FILE_NAMES = ["main", "aa", "bb"]


def arrange(p, arr):
    """files {name: text} for one arrangement; main.capy always holds the prelude and main"""
    items = top_level_items(p)
    main_fn = fn_src(p.fn("main"))
    where = {"main": 0, "printf": 0, "puts": 0, "putchar": 0}
    for idx, (name, _) in enumerate(items):
        where[name] = arr["files"][idx]
    order = arr["perm"]
    texts = {0: [], 1: [], 2: []}
    for idx in order:
        name, src = items[idx]
        texts[where[name]].append((name, src))
    texts[0].append(("main", main_fn))
    out = {}
    used_files = sorted({0} | set(arr["files"]))
    for fi in used_files:
        body = ""
        refs = set()
        for name, src in texts[fi]:
            def repl(m, src=src):
                w = m.group(0)
                # string literals, the defined name itself (position 0) and member names (after a `.`) stay as they are
                if w.startswith('"') or m.start() == 0 or src[m.start() - 1] == "." or w not in where or where[w] == fi:
                    return w
                refs.add(where[w])
                return f"{FILE_NAMES[where[w]]}_f.{w}"
            body += re.sub(r'"[^"\n]*"|\b[A-Za-z_][A-Za-z0-9_]*\b', repl, src) + "\n"
        header = (PRELUDE_PLAIN if fi == 0 else "")
        for r in sorted(refs):
            header += f'{FILE_NAMES[r]}_f :: #import("{FILE_NAMES[r]}.capy");\n'
        out[f"{FILE_NAMES[fi]}.capy"] = header + "\n" + body
    return out


def outcome(o):
    if o.kind == "ran":
        return ("ran", o.stdout.decode("utf-8", "replace"), o.status, o.signal)
    if o.kind == "rejected":
        kinds = sorted({runner.normalise_msg(e)[:60] for e in o.errors})
        return ("rejected", tuple(kinds))
    return (o.kind, o.crash_key)


def check(case, stats, scratch, profile):
    p = case["program"]
    try:
        it = interp.Interp(p)
        out, status, fault = it.run_main()
    except interp.StepLimit:
        stats.cls("interp-step-limit")
        return
    base_src = program_src(p)
    base = runner.run_case(scratch, {"main.capy": base_src})
    if base.kind in ("timeout", "exe-timeout"):
        stats.inconclusive += 1
        return
    if base.kind == "crash":
        raise Fail(base.crash_key, f"compiler crashed on the base arrangement\n{base.compiler_out[-1000:]}\n--- program ---\n{base_src}", {"files": {"main.capy": base_src}})
    b = outcome(base)
    nontrivial = False
    for arr in case["arrangements"]:
        files = arrange(p, arr)
        stats.evaluations += 1
        multi = any("#import(" in t for t in files.values())
        stats.cls(f"files.{len(files)}")
        stats.cls("with-cross-file-reference" if multi else "no-cross-file-reference")
        if any("#import(\"main.capy\")" in t for t in files.values()):
            stats.cls("import-cycle-through-main")
        o = runner.run_case(scratch, files)
        replay = {"base": {"main.capy": base_src}, "arranged": files}
        if o.kind in ("timeout", "exe-timeout"):
            stats.inconclusive += 1
            continue
        if o.kind == "crash":
            raise Fail(o.crash_key, f"compiler crashed on an arrangement the base of which gives {b[0]}\n{o.compiler_out[-1000:]}\n--- files ---\n" + "\n".join(f"// {n}\n{t}" for n, t in files.items()), replay)
        a = outcome(o)
        if a[0] != b[0]:
            raise Fail(f"C20:outcome-differs:{b[0]}->{a[0]}", f"base arrangement: {b[0]}; this arrangement ({len(files)} file(s)): {a[0]} {o.errors[:2]}\n--- files ---\n" + "\n".join(f"// {n}\n{t}" for n, t in files.items()) + f"\n--- base ---\n{base_src}", replay)
        if a[0] == "ran" and a != b:
            raise Fail("C20:behaviour-differs", f"base prints {b[1]!r} status {b[2]}; this arrangement prints {a[1]!r} status {a[2]}\n--- files ---\n" + "\n".join(f"// {n}\n{t}" for n, t in files.items()), replay)
        if multi:
            nontrivial = True
    if b[0] == "ran" and not fault and (b[1] != out or b[2] != status):
        stats.cls("base-differs-from-interpreter(C01's business)")
    if nontrivial:
        stats.nontrivial.add(h64(base_src))
        stats.sample({"arranged_files": {n: t[:500] for n, t in arrange(p, case["arrangements"][0]).items()}})


def replay_payload(payload, scratch):
    b = outcome(runner.run_case(scratch, payload["base"]))
    o = runner.run_case(scratch, payload["arranged"])
    if o.kind == "crash":
        return o.crash_key
    a = outcome(o)
    if a[0] != b[0]:
        return f"C20:outcome-differs:{b[0]}->{a[0]}"
    if a[0] == "ran" and a != b:
        return "C20:behaviour-differs"
    return None


RULE = ("base = a generated well-typed program (C01 generator: types, consts, functions calling each other); arrangements = random permutations of the top-level definitions and random "
        "partitions into 1-3 files with references rewritten to `file.name` and mutual imports (cycles allowed); 4 (quick) / 6 (thorough) arrangements per program; one evaluation = one "
        "arrangement compared with the base. Non-trivial = the program has an arrangement with >= 2 files (which always contains a cross-file or forward reference); distinct by base program.")


def run(ctx):
    if ctx.replay:
        scratch = core.make_scratch("C20", "replay")
        payload = json.load(open(ctx.replay))
        ctx.evaluations = 1
        k = replay_payload(payload, scratch)
        if k:
            ctx.violations[k] = ("replayed case still fails", payload)
        shutil.rmtree(scratch, ignore_errors=True)
        return ctx.finish(RULE, False, [])
    total = 10000 if ctx.thorough else 400
    infra = core.hypothesis_search(ctx, "pyv.c20", total, profiles=("thorough",) if ctx.thorough else ("quick",))
    scratch = core.make_scratch("C20", "kf")
    rc = ctx.finish(RULE, False, [
        "the extern prelude lives in main.capy only and is referenced as main_f.printf from other files (two files declaring the same extern is a separate, listed C06 defect)",
        "for rejected programs only the set of diagnostic kinds is compared, not their order",
    ], replayer=lambda p: replay_payload(p, scratch), min_nontrivial=50 if not ctx.collect_all() else 0)
    shutil.rmtree(scratch, ignore_errors=True)
    return 2 if infra and rc == 0 else rc
