"""C07 — a program is built if and only if no error was reported.

Inputs: generated well-typed programs and the same programs with exactly one *breaking* mutation
(type, mutability, const or scope breaking), compiled with `capy build --verbose-types local` (the
only CLI mode that tracks what is unsafe to compile). Oracle — implications between things the
compiler itself reports:
 (1) an object file is written  <=>  no error diagnostic is printed;
 (2) no error  =>  no `SOMETHING WAS UNSAFE TO COMPILE` line, no internal error, an executable exists;
 (3) an error attributed to an expression (all mutators produce these)  =>  the unsafe line is
     present and nothing is written to ./out."""
import json, os, shutil, subprocess

from hypothesis import strategies as st

from . import runner, core, gen, c01
from .core import Fail, h64
from .lang import program_src

UNSAFE = "SOMETHING WAS UNSAFE TO COMPILE"

# (name, lines injected at the start of main, expression-attributed?)
MUTATORS = [
    ("annotation-type", ["bad1 : i32 = true;"], True),
    ("annotation-struct", ["BadS :: struct { q: i32 };", "bad2 : BadS = 5;"], True),
    ("assign-immutable", ["bad3 :: 1;", "bad3 = 2;"], True),
    ("assign-through-imm-ptr", ["bad4 := 1;", "bad4p :: ^bad4;", "bad4p^ = 3;"], True),
    ("mutable-as-type", ["BadT := i32;", "bad5 : BadT = 1;"], True),
    ("mutable-as-size", ["badn : usize = 3;", "bad6 : [badn]i32;"], True),
    ("out-of-scope", ["{ bad7 :: 1; };", "bad7b : i32 = bad7;"], True),
    ("missing-member", ["BadM :: struct { a: i32, b: i32 };", "bad8 : BadM = BadM.{ a = 1 };"], True),
    ("extra-argument", ["badf :: (x: i32) -> i32 { x };", "bad9 : i32 = badf(1, 2);"], True),
    ("missing-argument", ["badg :: (x: i32, y: i32) -> i32 { x + y };", "bad10 : i32 = badg(1);"], True),
    ("wrong-return", ["badh :: () -> i32 { true };", "bad11 : i32 = badh();"], True),
    ("non-exhaustive-switch", ["bado : ?i32 = 5;", "switch badv in bado { i32 => {}, };"], True),
    ("mismatched-operands", ["bada : i32 = 1;", "badb : bool = true;", "badc :: bada + badb;"], True),
    ("deref-non-pointer", ["badd : i32 = 1;", "bade :: badd^;"], True),
    ("index-non-array", ["badi : i32 = 1;", "badj :: badi[0];"], True),
    ("literal-too-big", ["badk : u8 = 300;"], True),
    ("undefined-type", ["badl : NoSuchType = 1;"], True),
    ("call-non-function", ["badm : i32 = 1;", "badn2 :: badm();"], True),
    ("uninitialised-mutable-as-size", ["badu : usize;", "bad19 : [badu]i32;"], True),
    ("error-inside-comptime-type", ["okc : comptime { i32 } = 1;", "bad20 : comptime { bad20x : i32 = \"hello\"; i64 } = 5;"], True),
    ("error-inside-comptime-value", ["okd :: comptime { 2 + 2 };", "bad21 :: comptime { bad21x : bool = 3; 7 };"], True),
    ("switch-argument-after-switch", ["bado2 : ?i32 = 5;", "switch badsv in bado2 { nil => {}, i32 => {}, };", "bad22 : i32 = badsv;"], True),
    ("block-local-after-block", ["{ bad23 : i32 = 1; };", "bad23b : i32 = bad23 + 1;"], True),
    ("error-inside-comptime-array-size", ["bad24 : [comptime { b24 : usize = true; 3 }]i32;"], True),
    # accepted with a warning only: no error, so nothing may be flagged unsafe and the build has to succeed
    ("warning-only-break-in-defer", ["defer { break; };"], False),
    ("syntax", ["bads : = ;"], False),
]


@st.composite
def cases(draw):
    avoid = c01.current_avoid()
    p = draw(gen.programs({"features": set(gen.FEATURES) - {"faults"}, "avoid": avoid, "max_fns": 3, "max_types": 3, "max_stmts": 6}))
    mut = -1 if draw(st.integers(0, 3)) == 0 else draw(st.sampled_from(list(range(len(MUTATORS)))))
    return {"src": program_src(p), "mutator": mut}


def strategy(profile):
    return cases()


def mutate(src, mut):
    if mut < 0:
        return src
    name, lines, _ = MUTATORS[mut]
    idx = src.rfind("main :: ()")
    brace = src.find("{\n", idx)
    return src[:brace + 2] + "".join(f"    {l}\n" for l in lines) + src[brace + 2:]


def observe(scratch, src):
    d = os.path.join(scratch, "c07")
    shutil.rmtree(d, ignore_errors=True)
    os.makedirs(d)
    with open(os.path.join(d, "main.capy"), "w") as f:
        f.write(src)
    try:
        pr = subprocess.run([core.CAPY, "build", "main.capy", "--mod-dir", core.MOD_DIR, "--color", "never", "--verbose-types", "local"], cwd=d,
                            stdout=subprocess.PIPE, stderr=subprocess.STDOUT, timeout=40)
    except subprocess.TimeoutExpired:
        shutil.rmtree(d, ignore_errors=True)
        return None
    text = runner.clean(pr.stdout.decode("utf-8", "replace"))
    res = {
        "rc": pr.returncode, "text": text, "errors": runner.error_lines(text), "unsafe": UNSAFE in text,
        "obj": os.path.exists(os.path.join(d, "out", "main.o")), "exe": os.path.exists(os.path.join(d, "out", "main")),
        "crash": runner.crash_key_of(text) or (f"crash:signal-{-pr.returncode}" if pr.returncode < 0 else None),
        "out_dir_files": sorted(os.listdir(os.path.join(d, "out"))) if os.path.isdir(os.path.join(d, "out")) else [],
    }
    shutil.rmtree(d, ignore_errors=True)
    return res


def judge(src, mut, r):
    name = MUTATORS[mut][0] if mut >= 0 else "none"
    replay = {"src": src, "mutator": mut, "injected": True}
    tail = r["text"][-1500:]
    has_err = bool(r["errors"])
    if r["crash"] and not has_err:
        raise Fail(r["crash"], f"no error diagnostic, yet the compiler failed internally (mutator {name})\n{tail}\n--- program ---\n{src}", replay)
    if r["crash"] and has_err:
        raise Fail(r["crash"], f"compiler crashed after reporting errors (mutator {name})\n{tail}\n--- program ---\n{src}", replay)
    # (1)
    if r["obj"] and has_err:
        raise Fail("C07:object-despite-error", f"error diagnostics were printed ({r['errors'][:2]}) but out/main.o was written (mutator {name})\n--- program ---\n{src}", replay)
    if not r["obj"] and not has_err:
        raise Fail("C07:no-object-no-error", f"no error diagnostic was printed and yet no object file was written (mutator {name}, exit {r['rc']})\n{tail}\n--- program ---\n{src}", replay)
    # (2)
    if not has_err:
        if r["unsafe"]:
            raise Fail("C07:unsafe-without-error", f"`{UNSAFE}` although no error was reported (mutator {name})\n--- program ---\n{src}", replay)
        if not r["exe"]:
            raise Fail("C07:no-executable", f"no error was reported and the object exists, but no executable was linked (exit {r['rc']})\n{tail}\n--- program ---\n{src}", replay)
    # (3)
    if has_err and mut >= 0 and MUTATORS[mut][2]:
        if not r["unsafe"]:
            raise Fail(f"C07:error-not-flagged-unsafe:{name}", f"an error was reported for an expression ({r['errors'][:2]}) but nothing was flagged unsafe to compile (mutator {name})\n--- program ---\n{src}", replay)
        if r["out_dir_files"]:
            raise Fail("C07:output-despite-error", f"errors were reported but ./out contains {r['out_dir_files']} (mutator {name})\n--- program ---\n{src}", replay)
    # the mutators are meant to break the program
    if mut >= 0 and not has_err:
        return "mutation-did-not-break"
    return "ok"


# mutators behind which a listed open finding sits (key prefix): left out of the search while it is listed
MUTATOR_FINDINGS = {
    "error-inside-comptime-array-size": "crash:crates/hir_ty/src/globals.rs:",
    "warning-only-break-in-defer": "crash:crates/capy/src/main.rs:",
}


def check(case, stats, scratch, profile):
    if case["mutator"] >= 0 and not case.get("force"):
        pref = MUTATOR_FINDINGS.get(MUTATORS[case["mutator"]][0])
        if pref and any(f.get("status") == "open" and f["key"].startswith(pref) for f in core.load_findings("C07")):
            case = dict(case, mutator=-1)
    src = mutate(case["src"], case["mutator"])
    r = observe(scratch, src)
    if r is None:
        stats.inconclusive += 1
        return
    stats.evaluations += 1
    name = MUTATORS[case["mutator"]][0] if case["mutator"] >= 0 else "none"
    stats.cls("mutator." + name)
    v = judge(src, case["mutator"], r)
    stats.cls("verdict." + v)
    if case["mutator"] >= 0 and r["errors"]:
        # near-valid: the unmutated twin is accepted (it is a C01 program), the mutant is rejected
        stats.nontrivial.add(h64(src))
        stats.sample({"mutator": name, "errors": r["errors"][:2], "unsafe_flag": r["unsafe"], "object_written": r["obj"]})


def replay_payload(payload, scratch):
    src = mutate(payload["src"], payload["mutator"]) if "injected" not in payload else payload["src"]
    r = observe(scratch, src)
    if r is None:
        return None
    try:
        judge(src, payload["mutator"], r)
    except Fail as f:
        return f.key
    return None


RULE = ("generated well-typed programs (C01 generator) and twins with exactly one mutation out of 26 (24 breaking ones, one more behind a listed finding, one that only causes a warning) (annotation type, struct mismatch, assignment to `::`, write through `^`, "
        "`:=` local as type / array size, out-of-scope name, missing struct member, extra / missing call argument, wrong return type, non-exhaustive switch, mismatched operands, "
        "deref / index / call of a non-pointer / non-array / non-function, literal too big, undefined type, syntax slip), built with --verbose-types local. "
        "Non-trivial = a mutated twin that is rejected while its unmutated program is accepted; distinct by program text.")


def run(ctx):
    if ctx.replay:
        scratch = core.make_scratch("C07", "replay")
        payload = json.load(open(ctx.replay))
        ctx.evaluations = 1
        k = replay_payload(payload, scratch)
        if k:
            ctx.violations[k] = ("replayed case still fails", payload)
        shutil.rmtree(scratch, ignore_errors=True)
        return ctx.finish(RULE, False, [])
    total = 20000 if ctx.thorough else 1280
    infra = core.hypothesis_search(ctx, "pyv.c07", total)
    scratch = core.make_scratch("C07", "kf")
    rc = ctx.finish(RULE, False, [
        "only implications between things the compiler itself reports are asserted; which of valid / invalid the generator made is used for classification, not for the verdict",
        "`--verbose-types local` is the only CLI mode with track_unsafe_to_compile = true",
    ], replayer=lambda p: replay_payload(p, scratch), min_nontrivial=50 if not ctx.collect_all() else 0)
    shutil.rmtree(scratch, ignore_errors=True)
    return 2 if infra and rc == 0 else rc
