"""C16 — generic calls behave like calls to hand-substituted copies.

A generated generic function with 1-3 comptime parameters (a type T — integer or distinct/struct
wrapper —, an integer N used as array size and loop bound, an integer K used as a value), with T in
annotations and casts, `[N]T` arrays, a nested generic call, an inline header reference
`(comptime T: type, x: T) -> T`, optionally defined in another file; instantiated 1-4 times with
equal and different argument tuples, interleaved. The twin program replaces every instantiation by
a monomorphic copy with the arguments substituted textually. Oracle: stdout(generic) ==
stdout(twin) == a direct Python evaluation of the steps."""
import json, shutil

from hypothesis import strategies as st

from . import runner, core
from .core import Fail, h64
from .lang import INTS

INT_BY_NAME = {t.name: t for t in INTS}
TYPES = ["i8", "u8", "i16", "u16", "i32", "u32", "i64", "u64", "isize", "usize"]
PRELUDE = "printf :: (fmt: str, n: i64) -> i32 extern;\n"


@st.composite
def cases(draw):
    steps = draw(st.lists(st.sampled_from(["loop", "array", "addk", "inner", "xor", "shift", "cond"]), min_size=1, max_size=5))
    use_n = any(s in ("loop", "array") for s in steps) or draw(st.booleans())
    use_k = "addk" in steps or draw(st.booleans())
    wrap = draw(st.sampled_from(["plain", "plain", "distinct", "struct"]))
    n_inst = draw(st.integers(1, 4))
    insts = []
    for _ in range(n_inst):
        if insts and draw(st.integers(0, 3)) == 0:
            insts.append(dict(insts[draw(st.integers(0, len(insts) - 1))], x=draw(st.integers(0, 100))))  # same comptime args, other runtime arg
        else:
            insts.append({"T": draw(st.sampled_from(TYPES)), "N": draw(st.integers(1, 5)), "K": draw(st.integers(0, 120)), "x": draw(st.integers(0, 100))})
    probes = []
    for name in ("dependent-value", "runtime-first", "forwarding", "named-const-args", "varargs"):
        if draw(st.booleans()):
            vals = [draw(st.integers(1, 6)) for _ in range(4)]
            probes.append({"probe": name, "v": vals, "types": [draw(st.sampled_from(TYPES)), draw(st.sampled_from(TYPES))], "wide": draw(st.booleans())})
    return {"steps": steps, "use_n": use_n, "use_k": use_k, "wrap": wrap, "insts": insts, "other_file": draw(st.booleans()), "inline_header": draw(st.booleans()), "probes": probes}


def strategy(profile):
    return cases()


def body_src(case, T, N, K, inner_call):
    """function body in terms of the names/expressions T, N, K (parameters or substituted text)"""
    lines = [f"acc : {T} = x;"]
    for n, s in enumerate(case["steps"]):
        if s == "loop":
            lines += [f"i{n} : usize = 0;", f"while i{n} < {N} {{ acc = acc * {T}.(3) + {T}.(i{n}); i{n} += 1; }}"]
        elif s == "array":
            lines += [f"arr{n} : [{N}]{T};", f"j{n} : usize = 0;", f"while j{n} < {N} {{ arr{n}[j{n}] = acc + {T}.(j{n}); j{n} += 1; }}", f"acc = arr{n}[{N} - 1] + {T}.(arr{n}.len);"]
        elif s == "addk":
            lines += [f"acc = acc + {T}.({K});"]
        elif s == "inner":
            lines += [f"acc = {inner_call('acc')};"]
        elif s == "xor":
            lines += [f"acc = acc ~ {T}.(5);"]
        elif s == "shift":
            lines += [f"acc = (acc << {T}.(1)) | {T}.(1);"]
        elif s == "cond":
            lines += [f"if acc > {T}.(10) {{ acc = acc - {T}.(7); }} else {{ acc = acc + {T}.(2); }};"]
    lines.append("acc")
    return "\n    ".join(lines)


def evaluate(case, inst):
    t = INT_BY_NAME[inst["T"]]
    acc = t.wrap(inst["x"])
    N, K = inst["N"], inst["K"]
    for s in case["steps"]:
        if s == "loop":
            for i in range(N):
                acc = t.wrap(acc * 3 + i)
        elif s == "array":
            arr = [t.wrap(acc + j) for j in range(N)]
            acc = t.wrap(arr[N - 1] + N)
        elif s == "addk":
            acc = t.wrap(acc + t.wrap(K))
        elif s == "inner":
            acc = t.wrap(acc + 1)
        elif s == "xor":
            acc = t.wrap(acc ^ 5)
        elif s == "shift":
            acc = t.wrap((acc << 1) | 1)
        elif s == "cond":
            acc = t.wrap(acc - 7) if acc > 10 else t.wrap(acc + 2)
    return acc


def probe_parts(pr, generic, ns):
    """(library lines, main-file lines, call expressions already cast to i64, expected values)"""
    v = pr["v"]
    name = pr["probe"]
    if name == "dependent-value":
        # the type of a comptime parameter depends on an earlier comptime parameter
        t1, t2 = pr["types"]
        T1, T2 = INT_BY_NAME[t1], INT_BY_NAME[t2]
        v = list(v)
        if pr.get("wide") and T2.bits > T1.bits:
            # a comptime value for the second instantiation that would not fit the first instantiation's type
            v[1] = T1.max + 1 + v[1]
        exp = [T1.wrap(5 + v[0]), T2.wrap(7 + v[1]), T1.wrap(9 + v[2])]
        if generic:
            lib = ["rep :: (comptime T: type, comptime v: T, x: T) -> T { x + v }"]
            calls = [f"i64.({ns}rep({t1}, {v[0]}, {t1}.(5)))", f"i64.({ns}rep({t2}, {v[1]}, {t2}.(7)))", f"i64.({ns}rep({t1}, {v[2]}, {t1}.(9)))"]
        else:
            lib, calls = [], []
            for k, (t, vv, x) in enumerate(((t1, v[0], 5), (t2, v[1], 7), (t1, v[2], 9))):
                lib.append(f"rep_{k} :: (x: {t}) -> {t} {{ x + {vv} }}")
                calls.append(f"i64.(rep_{k}({t}.({x})))")
        return lib, [], calls, [to_i64(e) for e in exp]
    if name == "runtime-first":
        a, b = v[0], v[1] + 6
        exp = [2 * 100 + a * 10 + b, 1 * 100 + b * 10 + a]
        if generic:
            lib = ["rtf :: (x: i64, comptime A: usize, comptime B: usize) -> i64 { a : [A]u8; b : [B]u8; x * 100 + i64.(a.len) * 10 + i64.(b.len) }"]
            calls = [f"{ns}rtf(2, {a}, {b})", f"{ns}rtf(1, {b}, {a})"]
        else:
            lib = [f"rtf_0 :: (x: i64) -> i64 {{ a : [{a}]u8; b : [{b}]u8; x * 100 + i64.(a.len) * 10 + i64.(b.len) }}",
                   f"rtf_1 :: (x: i64) -> i64 {{ a : [{b}]u8; b : [{a}]u8; x * 100 + i64.(a.len) * 10 + i64.(b.len) }}"]
            calls = ["rtf_0(2)", "rtf_1(1)"]
        return lib, [], calls, exp
    if name == "forwarding":
        n1, n2 = v[0], v[1] + 6
        exp = [(10 + n1) + (10 + 2), (10 + n2) + (10 + 2), (11 + n1) + (11 + 2)]
        if generic:
            lib = ["inner2 :: (comptime M: usize, v: i64) -> i64 { arr : [M]u8; v + i64.(arr.len) }", "fwd :: (comptime N: usize, x: i64) -> i64 { inner2(N, x) + inner2(2, x) }"]
            calls = [f"{ns}fwd({n1}, 10)", f"{ns}fwd({n2}, 10)", f"{ns}fwd({n1}, 11)"]
        else:
            lib = [f"in2_{m} :: (v: i64) -> i64 {{ arr : [{m}]u8; v + i64.(arr.len) }}" for m in sorted({n1, n2, 2})]
            lib += [f"fwd_{n} :: (x: i64) -> i64 {{ in2_{n}(x) + in2_2(x) }}" for n in sorted({n1, n2})]
            calls = [f"fwd_{n1}(10)", f"fwd_{n2}(10)", f"fwd_{n1}(11)"]
        return lib, [], calls, exp
    if name == "varargs":
        # a generic function with a variable number of arguments of the comptime type
        t1, t2 = pr["types"]
        T1, T2 = INT_BY_NAME[t1], INT_BY_NAME[t2]
        a1, a2 = [v[0], v[1] + 100, v[2]], [v[3], 90]
        exp = [to_i64(T1.wrap(sum(a1) + 1)), to_i64(T2.wrap(sum(a2) + 2)), to_i64(T1.wrap(0 + 1))]
        if generic:
            lib = ["vsum :: (comptime T: type, first: T, vals: ...T) -> T { acc : T = first; i : usize = 0; while i < vals.len { acc = acc + vals[i]; i += 1; } acc }"]
            calls = [f"i64.({ns}vsum({t1}, {t1}.(1), {', '.join(f'{t1}.({x})' for x in a1)}))", f"i64.({ns}vsum({t2}, {t2}.(2), {', '.join(f'{t2}.({x})' for x in a2)}))", f"i64.({ns}vsum({t1}, {t1}.(1)))"]
        else:
            lib, calls = [], []
            for k, (t, first, args) in enumerate(((t1, 1, a1), (t2, 2, a2), (t1, 1, []))):
                lib.append(f"vsum_{k} :: (first: {t}, vals: ...{t}) -> {t} {{ acc : {t} = first; i : usize = 0; while i < vals.len {{ acc = acc + vals[i]; i += 1; }} acc }}")
                calls.append(f"i64.(vsum_{k}({t}.({first}){''.join(f', {t}.({x})' for x in args)}))")
        return lib, [], calls, exp
    # named-const-args: the comptime argument is a named constant / an alias / a constant of the library file
    ca, other = v[0] + 1, v[1] + 10
    exp = [1 + ca, 1 + ca]
    if generic:
        lib = [f"CA : usize : {ca};", "CB :: CA;", "ncl :: (comptime N: usize, x: i64) -> i64 { arr : [N]u8; x + i64.(arr.len) }"]
        # the calling file has a constant of the same name with another value when the library is a file of its own
        mainl = [f"CA : usize : {other};"] if ns else []
        calls = [f"{ns}ncl({ns}CB, 1)", f"{ns}ncl({ns}CA, 1)"]
    else:
        lib, mainl = [f"ncl_c :: (x: i64) -> i64 {{ arr : [{ca}]u8; x + i64.(arr.len) }}"], []
        calls = ["ncl_c(1)", "ncl_c(1)"]
    return lib, mainl, calls, exp


def to_i64(v):
    v &= (1 << 64) - 1
    return v - (1 << 64) if v >> 63 else v


def build(case, generic):
    params = ["comptime T: type"]
    if case["use_n"]:
        params.append("comptime N: usize")
    if case["use_k"]:
        params.append("comptime K: i64")
    lib, main_decls, calls = [], [], []
    ns = "lib." if (case["other_file"] and generic) else ""
    if generic:
        lib.append("inner :: (comptime U: type, v: U) -> U { v + U.(1) }")
        ret = "T"
        head = f"gen :: ({', '.join(params)}, x: T) -> {ret} {{\n    " + body_src(case, "T", "N", "K", lambda a: f"inner(T, {a})") + "\n}"
        lib.append(head)
    seen = {}
    for inst in case["insts"]:
        T, N, K = inst["T"], inst["N"], inst["K"]
        if generic:
            args = [T] + ([str(N)] if case["use_n"] else []) + ([str(K)] if case["use_k"] else [])
            call = f"{ns}gen({', '.join(args)}, {T}.({inst['x']}))"
        else:
            key = (T, N if case["use_n"] else None, K if case["use_k"] else None)
            if key not in seen:
                name = f"gen_{T}_{N}_{K}".replace("-", "m")
                seen[key] = name
                lib.append(f"inner_{name} :: (v: {T}) -> {T} {{ v + {T}.(1) }}")
                lib.append(f"{name} :: (x: {T}) -> {T} {{\n    " + body_src(case, T, str(N), str(K), lambda a: f"inner_{name}({a})") + "\n}")
            call = f"{seen[key]}({T}.({inst['x']}))"
        if case["wrap"] == "distinct" and generic:
            pass
        calls.append(f'    printf("%ld\\n", i64.({call}));')
    extra_main = []
    for pr in case.get("probes", []):
        pl, pm, pc, _ = probe_parts(pr, generic, ns)
        lib += pl
        extra_main += pm
        calls += [f'    printf("%ld\\n", {c});' for c in pc]
    files = {}
    main = PRELUDE + "".join(l + "\n" for l in extra_main)
    if case["other_file"] and generic:
        files["lib.capy"] = "\n".join(lib) + "\n"
        main += 'lib :: #import("lib.capy");\n'
    else:
        main += "\n".join(lib) + "\n"
    # generic over a struct / distinct type as well (identity through a generic)
    if case["wrap"] != "plain":
        decl = "W :: distinct i32;" if case["wrap"] == "distinct" else "W :: struct { a: i32, b: u8 };"
        mk = "W.(41)" if case["wrap"] == "distinct" else "W.{ a = 41, b = 2 }"
        rd = "i32.(r)" if case["wrap"] == "distinct" else "r.a"
        main += decl + "\n"
        if generic:
            main += "ident :: (comptime P: type, v: P) -> P { w : P = v; w }\n"
            calls.append(f'    {{ r : W = ident(W, {mk}); printf("%ld\\n", i64.({rd})); }};')
        else:
            main += "ident_W :: (v: W) -> W { w : W = v; w }\n"
            calls.append(f'    {{ r : W = ident_W({mk}); printf("%ld\\n", i64.({rd})); }};')
    main += "main :: () {\n" + "\n".join(calls) + "\n}\n"
    files["main.capy"] = main
    return files


DEP_XFILE_KEY = "crash:crates/hir_ty/src/globals.rs:index out of bounds: the len is N but the index is N"


WIDE_KEY = "C16:rejected:generic:error: integer literal `N` is too big for `uN`, which can only hold up to N"


def check(case, stats, scratch, profile):
    if not case.get("force") and any(f.get("status") == "open" and f["key"].startswith("C16:rejected:generic:error: integer literal") for f in core.load_findings("C16")):
        # listed open finding: the comptime value of a later instantiation is checked against an earlier instantiation's type
        case = dict(case, probes=[dict(pr, wide=False) for pr in case.get("probes", [])])
    if case.get("other_file") and not case.get("force") and any(f.get("status") == "open" and f["key"] == DEP_XFILE_KEY for f in core.load_findings("C16")):
        # listed open finding: a generic with a dependent comptime parameter type defined in another file panics
        case = dict(case, probes=[pr for pr in case.get("probes", []) if pr["probe"] != "dependent-value"])
    expected = "".join(f"{to_i64(evaluate(case, inst))}\n" for inst in case["insts"])
    for pr in case.get("probes", []):
        expected += "".join(f"{e}\n" for e in probe_parts(pr, True, "")[3])
        stats.cls("probe." + pr["probe"])
    expected += "41\n" if case["wrap"] != "plain" else ""
    gfiles = build(case, True)
    tfiles = build(case, False)
    stats.evaluations += 1
    distinct_args = len({(i["T"], i["N"], i["K"]) for i in case["insts"]}) >= 2
    if distinct_args and (case["use_n"] or case["use_k"] or "inner" in case["steps"]):
        stats.nontrivial.add(h64(json.dumps(case, sort_keys=True)))
    stats.cls(f"insts.{len(case['insts'])}")
    stats.cls("other-file" if case["other_file"] else "same-file")
    replay = {"case": case}
    og = runner.run_case(scratch, gfiles)
    ot = runner.run_case(scratch, tfiles)
    for which, o, files in (("generic", og, gfiles), ("substituted twin", ot, tfiles)):
        if o.kind in ("timeout", "exe-timeout"):
            stats.inconclusive += 1
            return
        if o.kind == "crash":
            raise Fail(o.crash_key, f"compiler crashed on the {which} program\n{o.compiler_out[-1200:]}\n--- program ---\n{files['main.capy']}\n{files.get('lib.capy', '')}", replay)
        if o.kind == "rejected":
            raise Fail(f"C16:rejected:{which.split()[0]}:" + runner.normalise_msg(o.errors[0] if o.errors else "?")[:70], f"the {which} program is rejected\n{o.compiler_out[-1500:]}\n--- program ---\n{files['main.capy']}\n{files.get('lib.capy', '')}", replay)
        if o.kind != "ran" or o.signal is not None:
            raise Fail(f"C16:{o.kind}:{which.split()[0]}", f"{which}: {o.brief()}\n--- program ---\n{files['main.capy']}", replay)
    g, t = og.stdout.decode("utf-8", "replace"), ot.stdout.decode("utf-8", "replace")
    if g != t:
        raise Fail("C16:generic-differs-from-twin", f"generic program prints {g.split()} but the hand-substituted twin prints {t.split()} (direct evaluation: {expected.split()})\n--- generic ---\n{gfiles['main.capy']}\n{gfiles.get('lib.capy', '')}\n--- twin ---\n{tfiles['main.capy']}", replay)
    if g != expected:
        raise Fail("C16:both-differ-from-evaluation", f"generic and twin agree ({g.split()}) but the direct evaluation of the steps gives {expected.split()}\n--- generic ---\n{gfiles['main.capy']}", replay)
    stats.sample({"generic": gfiles["main.capy"][-900:], "stdout": g})


def replay_payload(payload, scratch):
    st_ = core.Stats()
    try:
        check(payload["case"], st_, scratch, "replay")
    except Fail as f:
        return f.key
    return None


RULE = ("generic function with comptime T (type), optional comptime N (array size / loop bound) and K (value), body of 1-5 steps (loop to N, [N]T array fill, +K, nested generic "
        "call, xor, shift, conditional), inline header reference, optionally in an imported file; plus an identity generic over a distinct / struct type; 1-4 instantiations with "
        "equal and different comptime arguments; optional probes: a comptime parameter whose type is an earlier comptime parameter, run-time parameter before the comptime ones, "
        "a comptime parameter forwarded to a nested generic, named constants / aliases / library constants as comptime arguments, a variable number of arguments of the comptime type. Non-trivial = >= 2 different argument tuples and a non-type comptime parameter or nested generic call; distinct by case.")


def run(ctx):
    if ctx.replay:
        scratch = core.make_scratch("C16", "replay")
        payload = json.load(open(ctx.replay))
        ctx.evaluations = 1
        k = replay_payload(payload, scratch)
        if k:
            ctx.violations[k] = ("replayed case still fails", payload)
        shutil.rmtree(scratch, ignore_errors=True)
        return ctx.finish(RULE, False, [])
    total = 6000 if ctx.thorough else 640
    infra = core.hypothesis_search(ctx, "pyv.c16", total)
    scratch = core.make_scratch("C16", "kf")
    rc = ctx.finish(RULE, False, [
        "the twin is produced by textual substitution of the comptime arguments, as the statement defines the expected behaviour",
    ], replayer=lambda p: replay_payload(p, scratch), min_nontrivial=50 if not ctx.collect_all() else 0)
    shutil.rmtree(scratch, ignore_errors=True)
    return 2 if infra and rc == 0 else rc
