"""Batch runner for acceptance/behaviour matrices: many independent *cells* per program.

A cell = {"decls": [top-level source lines], "body": [statement lines placed in main],
          "expect": "accept" | "reject" | "either", "out": expected stdout of the cell or None,
          "key": shape key for failures, "desc": human description, plus any payload fields}.
Names inside a cell must be unique to the cell (suffix them with the cell index).

Pass 1 compiles the complete batch (no execution): the set of cells with an error on one of their
lines must equal the set the oracle rejects. Pass 2 compiles and runs the cells that were accepted
and compares each cell's slice of stdout (delimited by `@<i>` marker lines)."""
import re

from . import runner
from .core import Fail, h64

PRELUDE = """printf :: (fmt: str, n: i64) -> i32 extern;
puts :: (s: str) -> i32 extern;
"""

ERR_LINE = re.compile(r"--> at main\.capy:(\d+):(\d+)")


def error_lines(out):
    lines = out.split("\n")
    res = set()
    for i, l in enumerate(lines):
        if l.startswith("error"):
            for j in range(i + 1, min(i + 4, len(lines))):
                m = ERR_LINE.search(lines[j])
                if m:
                    res.add(int(m.group(1)))
                    break
            else:
                res.add(-1)
    return res


def build(cells, only=None, prelude=PRELUDE, extra_files=None):
    src = prelude
    ln = src.count("\n") + 1
    line_of = {}
    for i, c in enumerate(cells):
        if only is not None and i not in only:
            continue
        for d in c.get("decls", []):
            n = d.count("\n") + 1
            line_of.setdefault(i, set()).update(range(ln, ln + n))
            src += d + "\n"
            ln += n
    src += "main :: () {\n"
    ln += 1
    for i, c in enumerate(cells):
        if only is not None and i not in only:
            continue
        src += f'    puts("@{i}");\n'
        ln += 1
        src += "    {\n"
        ln += 1
        for b in c.get("body", []):
            n = b.count("\n") + 1
            line_of.setdefault(i, set()).update(range(ln, ln + n))
            src += "        " + b + "\n"
            ln += n
        src += "    };\n"
        ln += 1
    src += "}\n"
    ln += 1
    # declarations placed after their uses (definition-order variations)
    for i, c in enumerate(cells):
        if only is not None and i not in only:
            continue
        for d in c.get("decls_after", []):
            n = d.count("\n") + 1
            line_of.setdefault(i, set()).update(range(ln, ln + n))
            src += d + "\n"
            ln += n
    return src, line_of


def split_output(text):
    """{cell index: output text}"""
    out = {}
    cur = None
    lines = text.split("\n")
    if lines and lines[-1] == "":
        lines.pop()
    for line in lines:
        m = re.fullmatch(r"@(\d+)", line)
        if m:
            cur = int(m.group(1))
            out[cur] = ""
        elif cur is not None:
            out[cur] += line + "\n"
    return out


def run_cells(cells, stats, scratch, prop, prelude=PRELUDE, nontrivial=lambda c: True, payload=lambda c: c, extra_files=None):
    extra_files = extra_files or {}
    def one(i):
        s1, _ = build(cells, only={i}, prelude=prelude)
        return s1

    src, line_of = build(cells, prelude=prelude)
    o = runner.run_case(scratch, {"main.capy": src, **extra_files}, run=False, compile_timeout=60)
    if o.kind == "timeout":
        stats.inconclusive += 1
        return
    if o.kind == "crash":
        for i, c in enumerate(cells):
            o1 = runner.run_case(scratch, {"main.capy": one(i), **extra_files}, run=False)
            if o1.kind == "crash":
                raise Fail(o1.crash_key, f"compiler crashed on cell `{c['desc']}`\n{o1.compiler_out[-1000:]}\n--- program ---\n{one(i)}", {"cells": [payload(c)]})
        raise Fail(o.crash_key, f"compiler crashed on the batch only\n{o.compiler_out[-1000:]}\n--- program ---\n{src}", {"cells": [payload(c) for c in cells]})
    errs = error_lines(o.compiler_out) if o.kind == "rejected" else set()
    if -1 in errs:
        # an error without a location: attribute by compiling cells alone
        errs.discard(-1)
        for i, c in enumerate(cells):
            o1 = runner.run_case(scratch, {"main.capy": one(i), **extra_files}, run=False)
            if o1.kind == "rejected":
                errs |= line_of.get(i, set())
    accepted = set()
    for i, c in enumerate(cells):
        stats.evaluations += 1
        if nontrivial(c):
            stats.nontrivial.add(h64(c["desc"], c.get("key")))
        stats.cls("cell." + c.get("cls", c["key"].split(":")[1] if ":" in c["key"] else c["key"]))
        rejected = bool(line_of.get(i, set()) & errs)
        if c["expect"] == "accept" and rejected:
            o1 = runner.run_case(scratch, {"main.capy": one(i), **extra_files}, run=False)
            raise Fail(f"{c['key']}:rejected", f"`{c['desc']}` must be accepted but is rejected\n{o1.compiler_out[-900:]}\n--- one-cell program ---\n{one(i)}", {"cells": [payload(c)]})
        if c["expect"] == "reject" and not rejected:
            raise Fail(f"{c['key']}:accepted", f"`{c['desc']}` must be rejected but no error is reported for it\n--- one-cell program ---\n{one(i)}", {"cells": [payload(c)]})
        if c["expect"] == "either":
            stats.cls("either." + ("rejected" if rejected else "accepted"))
        if not rejected and c.get("out") is not None:
            accepted.add(i)
    if not accepted:
        return
    src2, _ = build(cells, only=accepted, prelude=prelude)
    o2 = runner.run_case(scratch, {"main.capy": src2, **extra_files}, compile_timeout=60)
    if o2.kind in ("timeout", "exe-timeout"):
        stats.inconclusive += 1
        return
    if o2.kind != "ran" or o2.signal is not None:
        for i in sorted(accepted):
            o1 = runner.run_case(scratch, {"main.capy": one(i), **extra_files})
            if o1.kind != "ran" or o1.signal is not None:
                key = o1.crash_key if o1.kind == "crash" else f"{cells[i]['key']}:{o1.kind}:{o1.signal}"
                raise Fail(key, f"cell `{cells[i]['desc']}` alone: {o1.brief()}\n{o1.compiler_out[-900:]}\n--- program ---\n{one(i)}", {"cells": [payload(cells[i])]})
        raise Fail(f"{prop}:batch-only-failure", f"accepted-only batch fails: {o2.brief()}\n{o2.compiler_out[-800:]}\n--- program ---\n{src2}", {"cells": [payload(c) for c in cells]})
    outs = split_output(o2.stdout.decode("utf-8", "replace"))
    for i in sorted(accepted):
        exp = cells[i]["out"]
        got = outs.get(i, "<missing>")
        if got != exp:
            raise Fail(f"{cells[i]['key']}:wrong-output", f"cell `{cells[i]['desc']}`: expected output {exp!r}, got {got!r}\n--- one-cell program ---\n{one(i)}", {"cells": [payload(cells[i])]})
