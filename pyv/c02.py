"""C02 — writing one value never changes any other value.

Frames: a target slot of an aggregate or sum type with guards holding sentinel bytes directly
before and after it (struct fields in declaration order, array neighbours, adjacent locals).
One or more write operations hit the target; after each, every guard and every copy is printed.
Oracle: the reference interpreter (value semantics). A systematic sweep passes and returns structs
of every size 1..64 bytes by value."""
import json, shutil

from hypothesis import strategies as st

from . import runner, core, interp, c01
from .core import Fail, h64
from .gen import G
from .lang import *  # noqa

SENT = {8: 0xA5, 16: 0xA5C3, 32: 0xA5C3F00D, 64: 0x1122334455667788}
GUARD_TYS = [U8, U16, U32, U64]


class B:
    """program builder on top of hypothesis draw"""
    def __init__(self, draw):
        self.draw = draw
        self.p = Program()
        self.n = 0
        # only its draw-free helpers (print_value, fresh) are used; values of type ?[n]T are printed
        # through #is_variant/#unwrap instead of a `[n]T =>` switch arm (a listed C01 finding: the
        # type checker panics on such arms), which is not this property's concern
        self.util = G(draw, {"avoid": c01.current_avoid()})

    def int(self, lo, hi):
        return self.draw(st.integers(lo, hi))

    def pick(self, seq):
        return seq[self.int(0, len(seq) - 1)]

    def fresh(self, p):
        self.n += 1
        return f"{p}{self.n}"

    def scalar(self):
        return self.pick([U8, U16, U32, U64, I8, I32, I64, BOOL])

    def lit(self, t):
        if isinstance(t, Bool):
            return Lit(t, bool(self.int(0, 1)))
        if isinstance(t, Char):
            return Lit(t, self.int(1, 255))
        return Lit(t, self.int(1, min(t.max, 250)))

    def small_struct(self):
        nf = self.int(1, 4)
        t = Struct(self.fresh("S"), [(f"m{i}", self.pick([U8, U16, U32, U64, I8, BOOL, Array(self.int(1, 5), U8)])) for i in range(nf)])
        self.p.types.append(t)
        return t

    def value(self, t):
        """a literal expression of type t"""
        t0 = strip_distinct(t)
        if is_scalar(t0):
            return self.lit(t)
        if isinstance(t0, Array):
            return ArrLit(t0, [self.value(t0.elem) for _ in range(t0.n)])
        if isinstance(t0, Struct):
            return StructLit(t0, [(n, self.value(ft)) for n, ft in t0.fields])
        if isinstance(t0, Enum):
            idx = self.int(0, len(t0.variants) - 1)
            return Coerce(self.variant(t0, idx), t0)
        if isinstance(t0, Opt):
            return Nil(t0) if self.int(0, 3) == 0 else Coerce(self.value(t0.inner), t0)
        if isinstance(t0, ErrU):
            return Coerce(self.value(t0.ok), t0) if self.int(0, 1) else self.err_value(t0)
        raise TypeError(t)

    def err_value(self, t0):
        en = strip_distinct(t0.err)
        idx = self.int(0, len(en.variants) - 1)
        # variant -> enum -> error union (two implicit steps)
        return Coerce(Coerce(self.variant(en, idx), en), t0)

    def variant(self, en, idx):
        name, payload, _ = en.variants[idx]
        return VariantLit(VariantTy(en, idx), None if payload is None else self.value(payload))

    def target_ty(self):
        k = self.pick(["enum", "enum", "opt", "erru", "struct", "array", "optstruct"])
        if k == "enum":
            nv = self.int(1, 4)
            vs = []
            custom = self.int(0, 2) == 0
            for i in range(nv):
                payload = None if self.int(0, 2) == 0 else self.pick([U8, U16, U32, U64, I8, BOOL, None, "struct", "arr"])
                if payload == "struct":
                    payload = self.small_struct()
                elif payload == "arr":
                    payload = Array(self.int(1, 7), U8)
                vs.append((f"V{i}", payload, (10 * i + 3) if custom else None))
            t = Enum(self.fresh("E"), vs)
            self.p.types.append(t)
            return t
        if k == "opt":
            return Opt(self.pick([U8, U16, U32, U64, I8, BOOL, Array(self.int(1, 7), U8)]))
        if k == "optstruct":
            return Opt(self.small_struct())
        if k == "erru":
            en = Enum(self.fresh("Err"), [("Bad", None, None), ("Worse", self.pick([U8, U16, U32]), None)])
            self.p.types.append(en)
            return ErrU(en, self.pick([U8, U16, U32, U64, I32]))
        if k == "struct":
            return self.small_struct()
        return Array(self.int(1, 6), self.pick([U8, U16, U32]))


def frame_program(draw):
    b = B(draw)
    T = b.target_ty()
    g0t, g1t = b.pick(GUARD_TYS), b.pick(GUARD_TYS)
    kind = b.pick(["struct", "struct", "array", "locals", "pair", "pair"])
    body = []
    env_prints = []   # functions producing print statements for everything live

    def guard_lit(t):
        return Lit(t, SENT[t.bits])

    if kind == "struct":
        F = Struct(b.fresh("F"), [("g0", g0t), ("t", T), ("g1", g1t), ("g2", U64)])
        b.p.types.append(F)
        body.append(Let("f", F, True, StructLit(F, [("g0", guard_lit(g0t)), ("t", b.value(T)), ("g1", guard_lit(g1t)), ("g2", guard_lit(U64))])))
        target = Field(Var("f", F), "t", T)
        live = [(Field(Var("f", F), "g0", g0t), g0t), (target, T), (Field(Var("f", F), "g1", g1t), g1t), (Field(Var("f", F), "g2", U64), U64)]
    elif kind == "pair":
        # a small frame (often <= 16 bytes, so passed and returned in registers): one guard, then the target
        F = Struct(b.fresh("P"), [("g0", g0t), ("t", T)])
        b.p.types.append(F)
        body.append(Let("f", F, True, StructLit(F, [("g0", guard_lit(g0t)), ("t", b.value(T))])))
        target = Field(Var("f", F), "t", T)
        live = [(Field(Var("f", F), "g0", g0t), g0t), (target, T)]
    elif kind == "array":
        A = Array(3, T)
        body.append(Let("arr", A, True, ArrLit(A, [b.value(T), b.value(T), b.value(T)])))
        target = Index(Var("arr", A), Lit(USIZE, 1), T)
        live = [(Index(Var("arr", A), Lit(USIZE, i), T), T) for i in range(3)]
    else:
        body.append(Let("g0", g0t, True, guard_lit(g0t)))
        body.append(Let("t", T, True, b.value(T)))
        body.append(Let("g1", g1t, True, guard_lit(g1t)))
        target = Var("t", T)
        live = [(Var("g0", g0t), g0t), (target, T), (Var("g1", g1t), g1t)]

    def dump():
        out = []
        for e, t in live + extra_live:
            out += b.util.print_value(e, t)
        return out

    extra_live = []
    ops = []
    t0 = strip_distinct(T)
    for _ in range(b.int(1, 4)):
        op = b.pick(["store", "store", "copy-mutate", "default", "via-fn", "nil-or-variant", "snapshot", "whole-via-fn", "permute-self", "permute-self", "reordered-literal", "cast-copy", "alias-during-call"])
        if op == "reordered-literal" and kind not in ("struct", "pair"):
            op = "alias-during-call"
        if op == "whole-via-fn" and kind not in ("struct", "pair"):
            op = "via-fn"
        ops.append(op)
        if op == "store":
            body.append(Assign(target, None, b.value(T)))
        elif op == "nil-or-variant":
            if isinstance(t0, Opt):
                body.append(Assign(target, None, Nil(t0)))
            elif isinstance(t0, Enum):
                body.append(Assign(target, None, Coerce(b.variant(t0, b.int(0, len(t0.variants) - 1)), t0)))
            elif isinstance(t0, ErrU):
                body.append(Assign(target, None, b.err_value(t0)))
            else:
                body.append(Assign(target, None, b.value(T)))
        elif op == "copy-mutate":
            c = b.fresh("c")
            body.append(Let(c, T, True, target))
            extra_live.append((Var(c, T), T))
            # mutate the copy, the original must not change (and vice versa)
            body.append(Assign(Var(c, T), None, b.value(T)))
            body += dump()
            body.append(Assign(target, None, b.value(T)))
        elif op == "permute-self":
            # the new value is a literal that reads the old value of the same target: `t = S.{ a = t.b, b = t.a }`
            if isinstance(t0, Array) and t0.n >= 2:
                perm = list(b.draw(st.permutations(list(range(t0.n)))))
                body.append(Assign(target, None, ArrLit(t0, [Index(target, Lit(USIZE, j), t0.elem) for j in perm])))
            elif isinstance(t0, Struct) and len(t0.fields) >= 2:
                groups = {}
                for fn_, ft in t0.fields:
                    groups.setdefault(ft.src(), []).append(fn_)
                src_of_field = {}
                for names in groups.values():
                    perm = list(b.draw(st.permutations(names)))
                    for dst, src_ in zip(names, perm):
                        src_of_field[dst] = src_
                body.append(Assign(target, None, StructLit(t0, [(fn_, Field(target, src_of_field[fn_], ft)) for fn_, ft in t0.fields])))
            else:
                body.append(Assign(target, None, b.value(T)))
        elif op == "reordered-literal":
            # the whole frame from a literal whose members are listed in another order than declared, the target member
            # coming from a variable (an aggregate copied from memory), the guards from literals
            srcv = b.fresh("rsrc")
            body.append(Let(srcv, T, True, b.value(T)))
            extra_live.append((Var(srcv, T), T))
            members = [(fn_, Var(srcv, T) if fn_ == "t" else Lit(ft, SENT[ft.bits])) for fn_, ft in F.fields]
            perm = list(b.draw(st.permutations(list(range(len(members))))))
            body.append(Assign(Var("f", F), None, StructLit(F, [members[j] for j in perm])))
        elif op == "cast-copy":
            # a local defined from a layout-preserving cast is a copy, not an alias
            if isinstance(t0, (Struct, Enum, Array)) and not isinstance(T, Distinct):
                D = Distinct(b.fresh("DW"), T)
                b.p.types.append(D)
                m = b.fresh("dc")
                body.append(Let(m, D, True, Cast(D, target)))
                extra_live.append((Cast(T, Var(m, D)), T))
                body.append(Assign(target, None, b.value(T)))
                body += dump()
                body.append(Assign(Var(m, D), None, Cast(D, b.value(T))))
            else:
                body.append(Assign(target, None, b.value(T)))
        elif op == "alias-during-call":
            # by-value argument and a ^mut pointer to the same variable: the callee writes through the pointer, the
            # by-value parameter keeps the old value
            fn = b.fresh("afn")
            PT = Ptr(True, T)
            newv = b.value(T)
            b.p.fns.append(FnDecl(fn, [("a", T), ("p", PT)], T, [Assign(Deref(Var("p", PT), T), None, newv)], Var("a", T)))
            r = b.fresh("ar")
            body.append(Let(r, T, True, Call(fn, [target, AddrOf(True, target, PT)], T)))
            extra_live.append((Var(r, T), T))
        elif op == "snapshot":
            # an immutable binding is a copy as well: later writes to the source must not show through it
            c = b.fresh("snap")
            body.append(Let(c, T, False, target))
            extra_live.append((Var(c, T), T))
            body.append(Assign(target, None, b.value(T)))
        elif op == "whole-via-fn":
            # the whole frame by value: callee mutates its copy of the target and returns the frame
            fn = b.fresh("wfn")
            fbody = [Let("loc", F, True, Var("a", F)), Assign(Field(Var("loc", F), "t", T), None, b.value(T))]
            b.p.fns.append(FnDecl(fn, [("a", F)], F, fbody, Var("loc", F)))
            keep = b.fresh("keep")
            body.append(Let(keep, F, True, Var("f", F)))
            for fname, fty in F.fields:
                extra_live.append((Field(Var(keep, F), fname, fty), fty))
            body.append(Assign(Var("f", F), None, Call(fn, [Var(keep, F)], F)))
        elif op == "default":
            if b.util.defaultable(T):
                d = b.fresh("d")
                body.append(Let(d, T, True, None))
                extra_live.append((Var(d, T), T))
                body.append(Assign(target, None, Var(d, T)))
            else:
                body.append(Assign(target, None, b.value(T)))
        elif op == "via-fn":
            # pass by value, mutate the callee's copy, return it
            fn = b.fresh("fn")
            pv = Var("a", T)
            fbody = [Let("loc", T, True, pv), Assign(Var("loc", T), None, b.value(T))]
            b.p.fns.append(FnDecl(fn, [("a", T)], T, fbody, Var("loc", T)))
            src = b.fresh("src")
            body.append(Let(src, T, True, b.value(T)))
            extra_live.append((Var(src, T), T))
            body.append(Assign(target, None, Call(fn, [Var(src, T)], T)))
        body += dump()
    b.p.fns.append(FnDecl("main", [], VOID, body, None))
    b.p.meta = {"frame": kind, "target": T.src() if not isinstance(T, (Enum, Struct)) else type(T).__name__, "ops": ops}
    return b.p


def sized_struct(name, n, shape):
    """a struct of exactly n bytes (by the documented layout rules)"""
    if shape == 0 or n < 3:
        return Struct(name, [("b", Array(n, U8))])
    if shape == 1:
        return Struct(name, [("x", U16), ("b", Array(n - 2, U8))])
    if shape == 2 and n >= 5:
        return Struct(name, [("x", U32), ("b", Array(n - 4, U8))])
    if shape == 3 and n >= 9:
        return Struct(name, [("x", U64), ("b", Array(n - 8, U8))])
    if shape == 4 and n >= 9 and (n - 8) % 8 == 0:
        return Struct(name, [("b", Array(n - 8, U8)), ("x", U64)])
    return Struct(name, [("b", Array(n, U8))])


def sweep_program(sizes, shape):
    """pass / return structs of the given sizes by value between guards"""
    p = Program()
    util = G(None)
    body = []
    for n in sizes:
        S = sized_struct(f"Z{n}", n, shape)
        p.types.append(S)
        F = Struct(f"FZ{n}", [("g0", U64), ("t", S), ("g1", U8), ("g2", U64)])
        p.types.append(F)

        def val(seed):
            fs = []
            for fn, ft in S.fields:
                if isinstance(ft, Array):
                    fs.append((fn, ArrLit(ft, [Lit(U8, (seed + 3 * i) % 251 + 1) for i in range(ft.n)])))
                else:
                    fs.append((fn, Lit(ft, (seed * 7919 + 12345) % ft.max)))
            return StructLit(S, fs)

        bfield = [f for f in S.fields if isinstance(f[1], Array)][0]
        p.fns.append(FnDecl(f"pass{n}", [("s", S)], S, [], Var("s", S)))
        p.fns.append(FnDecl(f"bump{n}", [("s", S)], S, [Let("t", S, True, Var("s", S)),
                                                        Assign(Index(Field(Var("t", S), bfield[0], bfield[1]), Lit(USIZE, bfield[1].n - 1), U8), "+", Lit(U8, 1))], Var("t", S)))
        f, v = f"f{n}", f"v{n}"
        body.append(Let(v, S, True, val(n)))
        body.append(Let(f, F, True, StructLit(F, [("g0", Lit(U64, SENT[64])), ("t", val(n + 1)), ("g1", Lit(U8, SENT[8])), ("g2", Lit(U64, SENT[64] ^ 0xFFFF))])))
        live = [(Field(Var(f, F), "g0", U64), U64), (Field(Var(f, F), "t", S), S), (Field(Var(f, F), "g1", U8), U8), (Field(Var(f, F), "g2", U64), U64), (Var(v, S), S)]
        for call in (f"pass{n}", f"bump{n}"):
            body.append(Assign(Field(Var(f, F), "t", S), None, Call(call, [Var(v, S)], S)))
            for e, t in live:
                body += util.print_value(e, t)
            body.append(Assign(Field(Var(f, F), "t", S), None, Call(call, [Field(Var(f, F), "t", S)], S)))
            for e, t in live:
                body += util.print_value(e, t)
    p.fns.append(FnDecl("main", [], VOID, body, None))
    p.meta = {"frame": "sweep", "sizes": list(sizes), "shape": shape}
    return p


def abi_sweep_programs():
    """small structs (<= 24 bytes) with one sum-typed field next to a guard, passed and returned by value:
    every (guard type, sum type, field order) combination, some/nil and every variant"""
    E = Enum("AE", [("A", U32, None), ("B", None, None), ("C", U8, None)])
    Er = Enum("AErr", [("Bad", None, None), ("Worse", U16, None)])
    sums = [Opt(U8), Opt(U16), Opt(U32), Opt(I32), Opt(U64), Opt(BOOL), Opt(Array(3, U8)), E, ErrU(Er, U32), ErrU(Er, U8)]
    progs = []
    for gi, gt in enumerate(GUARD_TYS):
        p = Program()
        p.types += [E, Er]
        util = G(None, {"avoid": c01.current_avoid()})
        body = []
        k = 0
        for X in sums:
            x0 = strip_distinct(X)
            if isinstance(x0, Opt):
                inner = x0.inner
                iv = (lambda n: ArrLit(inner, [Lit(U8, n + j) for j in range(inner.n)])) if isinstance(inner, Array) else (lambda n: Lit(inner, bool(n & 1) if isinstance(inner, Bool) else n))
                vals = [Coerce(iv(41), X), Nil(x0), Coerce(iv(7), X)]
            elif isinstance(x0, Enum):
                vals = [Coerce(VariantLit(VariantTy(x0, 0), Lit(U32, 123456)), X), Coerce(VariantLit(VariantTy(x0, 1), None), X), Coerce(VariantLit(VariantTy(x0, 2), Lit(U8, 9)), X)]
            else:
                en = x0.err
                vals = [Coerce(Lit(x0.ok, 77), X), Coerce(Coerce(VariantLit(VariantTy(en, 0), None), en), X), Coerce(Coerce(VariantLit(VariantTy(en, 1), Lit(U16, 513)), en), X)]
            for order in (0, 1, 2):
                k += 1
                fields = [("g0", gt), ("t", X)] if order == 0 else [("t", X), ("g0", gt)] if order == 1 else [("g0", gt), ("t", X), ("g1", U8)]
                S = Struct(f"A{gi}_{k}", fields)
                p.types.append(S)

                def lit(v):
                    return StructLit(S, [(n, v if n == "t" else Lit(ft, SENT[ft.bits])) for n, ft in S.fields])
                p.fns.append(FnDecl(f"pass{k}", [("s", S)], S, [], Var("s", S)))
                p.fns.append(FnDecl(f"set{k}", [("s", S), ("v", X)], S, [Let("l", S, True, Var("s", S)), Assign(Field(Var("l", S), "t", X), None, Var("v", X))], Var("l", S)))
                v, r = f"v{k}", f"r{k}"
                body.append(Let(v, S, True, lit(vals[0])))
                body.append(Let(r, S, True, lit(vals[1])))
                live = [(Field(Var(x, S), n, ft), ft) for x in (v, r) for n, ft in S.fields]
                for val in vals:
                    body.append(Assign(Var(r, S), None, Call(f"set{k}", [Var(v, S), val], S)))
                    for e, t in live:
                        body += util.print_value(e, t)
                    body.append(Assign(Var(v, S), None, Call(f"pass{k}", [Var(r, S)], S)))
                    for e, t in live:
                        body += util.print_value(e, t)
        p.fns.append(FnDecl("main", [], VOID, body, None))
        p.meta = {"frame": "abi-sweep", "guard": gt.src()}
        progs.append(p)
    return progs


def padding_sweep_programs():
    """struct members packed into the tail padding of a preceding aggregate member: the frame is written from literals whose
    members are listed in every order, with the aggregate member copied from a variable (local definition and assignment)"""
    import itertools
    shapes = [[U64, U8], [U32, U8], [U64, U16], [U16, U8], [U64, U32, U8], [U32, U16, U8]]
    progs = []
    for si, shape in enumerate(shapes):
        p = Program()
        util = G(None, {"avoid": c01.current_avoid()})
        Inner = Struct(f"PI{si}", [(f"m{j}", t) for j, t in enumerate(shape)])
        Outer = Struct(f"PO{si}", [("inner", Inner), ("tail", U8), ("tail2", U8)])
        Src = Struct(f"PS{si}", [("inner", Inner), ("t1", U8), ("t2", U8)])
        p.types += [Inner, Outer, Src]
        body = []
        inner_val = StructLit(Inner, [(f"m{j}", Lit(t, 11 + j)) for j, t in enumerate(shape)])
        body.append(Let("src", Src, True, StructLit(Src, [("inner", inner_val), ("t1", Lit(U8, 99)), ("t2", Lit(U8, 98))])))
        members = [("inner", Field(Var("src", Src), "inner", Inner)), ("tail", Lit(U8, 7)), ("tail2", Lit(U8, 8))]
        for k, perm in enumerate(itertools.permutations(range(3))):
            lit = StructLit(Outer, [members[j] for j in perm])
            v = f"o{k}"
            body.append(Let(v, Outer, True, lit))
            body += util.print_value(Var(v, Outer), Outer)
            body.append(Assign(Var(v, Outer), None, StructLit(Outer, [members[j] for j in reversed(perm)])))
            body += util.print_value(Var(v, Outer), Outer)
            body += util.print_value(Var("src", Src), Src)
        p.fns.append(FnDecl("main", [], VOID, body, None))
        p.meta = {"frame": "padding-sweep", "inner": [t.src() for t in shape]}
        progs.append(p)
    return progs


@st.composite
def frames(draw):
    return frame_program(draw)


def strategy(profile):
    return frames()


def check(p, stats, scratch, profile):
    src = program_src(p)
    it = interp.Interp(p, max_steps=2_000_000)
    out, status, fault = it.run_main()
    assert fault is None, fault
    o = runner.run_case(scratch, {"main.capy": src}, compile_timeout=60)
    stats.evaluations += 1
    meta = getattr(p, "meta", {})
    stats.nontrivial.add(h64(src))
    stats.cls("frame." + meta.get("frame", "?"))
    for op in meta.get("ops", []):
        stats.cls("op." + op)
    replay = {"files": {"main.capy": src}, "expect": {"stdout": out, "status": 0}, "meta": meta}
    if o.kind in ("timeout", "exe-timeout"):
        stats.inconclusive += 1
        return
    if o.kind == "crash":
        raise Fail(o.crash_key, f"compiler crashed\n{o.compiler_out[-1200:]}\n--- program ---\n{src}", replay)
    if o.kind == "rejected":
        raise Fail("C02:rejected:" + runner.normalise_msg(o.errors[0] if o.errors else "?")[:80], f"program rejected\n{o.compiler_out[-1500:]}\n--- program ---\n{src}", replay)
    if o.kind != "ran" or o.signal is not None:
        raise Fail(f"C02:{o.kind}:signal-{o.signal}", f"{o.brief()}\n--- program ---\n{src}", replay)
    got = o.stdout.decode("utf-8", "replace")
    if got != out or o.status != 0:
        gl, el = got.split("\n"), out.split("\n")
        i = next((k for k in range(min(len(gl), len(el))) if gl[k] != el[k]), min(len(gl), len(el)))
        raise Fail(f"C02:corruption:{meta.get('frame')}", f"output differs from the value-semantics model at line {i}: expected {el[i:i+3]}, got {gl[i:i+3]} (frame {meta})\n--- program ---\n{src}", replay)
    stats.sample({"meta": meta, "program": src[:1200]})


def replay_payload(payload, scratch):
    o = runner.run_case(scratch, payload["files"], compile_timeout=60)
    if o.kind == "crash":
        return o.crash_key
    if o.kind == "rejected":
        return "C02:rejected:" + runner.normalise_msg(o.errors[0] if o.errors else "?")[:80]
    if o.kind != "ran" or o.signal is not None:
        return f"C02:{o.kind}:signal-{o.signal}"
    if o.stdout.decode("utf-8", "replace") != payload["expect"]["stdout"] or o.status != 0:
        return f"C02:corruption:{payload.get('meta', {}).get('frame')}"
    return None


RULE = ("frames = target slot of an aggregate/sum type (enum with payloads and custom discriminants, optional, error union, struct, array) between guards holding "
        "sentinel bytes (struct fields, array neighbours, adjacent locals) + 1-4 write operations (store of a literal, variant/nil/error store, copy-then-mutate, "
        "default-initialised value, by-value pass + callee mutation + return, a literal that permutes the target's own elements / same-typed fields, a frame literal with members in another order and the target member from a variable, a local defined from a layout-preserving cast, a by-value argument plus a ^mut pointer to the same variable); plus a systematic sweep passing and returning structs of every size 1..64 bytes "
        "(5 field shapes) by value, and every (guard type x sum-typed field x field order) small struct passed / returned in registers, and frames whose guards sit in the tail padding of an aggregate member, written from literals in every member order. Every case writes an aggregate/sum target with a guard adjacent after it, so every case is non-trivial; distinct by program text.")


def run(ctx):
    if ctx.replay:
        scratch = core.make_scratch("C02", "replay")
        payload = json.load(open(ctx.replay))
        ctx.evaluations = 1
        k = replay_payload(payload, scratch)
        if k:
            ctx.violations[k] = ("replayed case still fails", payload)
        shutil.rmtree(scratch, ignore_errors=True)
        return ctx.finish(RULE, False, [])
    # systematic sweep (deterministic)
    scratch = core.make_scratch("C02", "sweep")
    st_ = core.Stats()
    shapes = range(5) if ctx.thorough else (0, 2, 3)
    for shape in shapes:
        for lo in range(1, 65, 8):
            p = sweep_program(range(lo, lo + 8), shape)
            try:
                check(p, st_, scratch, "sweep")
            except Fail as f:
                if ctx.is_known(f.key):
                    st_.known_hits[f.key] = st_.known_hits.get(f.key, 0) + 1
                else:
                    st_.violations[f.key] = (f.desc, f.replay)
    for p in abi_sweep_programs() + padding_sweep_programs():
        try:
            check(p, st_, scratch, "sweep")
        except Fail as f:
            if ctx.is_known(f.key):
                st_.known_hits[f.key] = st_.known_hits.get(f.key, 0) + 1
            else:
                st_.violations[f.key] = (f.desc, f.replay)
    ctx.merge(st_)
    total = 10000 if ctx.thorough else 640
    infra = core.hypothesis_search(ctx, "pyv.c02", total)
    rc = ctx.finish(RULE, False, [
        "the reference interpreter implements value semantics: aggregates are copied on assignment, argument passing and return",
        "adjacency of guards follows the documented layout rules (struct fields in declaration order, array elements by stride)",
    ], replayer=lambda p: replay_payload(p, scratch), min_nontrivial=50 if not ctx.collect_all() else 0)
    shutil.rmtree(scratch, ignore_errors=True)
    return 2 if infra and rc == 0 else rc
