"""C19 — calls across the C boundary pass values intact.

A generated signature (0-8 parameters and a return type drawn from integer, float, bool, char,
pointer, optional-pointer and struct types; structs of 1-5 scalar / small-array fields, 1-64 bytes,
mixed INTEGER / SSE classes) is exercised in both directions against code compiled by the host gcc:
 (A) Capy calls an `extern` C function: C prints every argument it received and returns a value,
     Capy prints the returned value;
 (B) C calls a Capy function through a function pointer: Capy prints every argument it received
     and returns a value, C prints what came back.
Every scalar leaf has its own constant; floats are printed as bit patterns. Oracle: the text a
correct transfer prints (computed from the constants)."""
import json, os, shutil, struct, subprocess

from hypothesis import strategies as st

from . import runner, core
from .core import Fail, h64

SCALARS = {
    # name: (C type, kind)
    "i8": ("int8_t", "int"), "u8": ("uint8_t", "int"), "i16": ("int16_t", "int"), "u16": ("uint16_t", "int"), "i32": ("int32_t", "int"), "u32": ("uint32_t", "int"),
    "i64": ("int64_t", "int"), "u64": ("uint64_t", "int"), "isize": ("int64_t", "int"), "usize": ("uint64_t", "int"),
    "f32": ("float", "f32"), "f64": ("double", "f64"), "bool": ("_Bool", "bool"), "char": ("uint8_t", "char"),
    "^i32": ("int32_t *", "ptr"), "?^i32": ("int32_t *", "optptr"),
}
BITS = {"i8": 8, "u8": 8, "i16": 16, "u16": 16, "i32": 32, "u32": 32, "i64": 64, "u64": 64, "isize": 64, "usize": 64}
SIZE = {"i8": 1, "u8": 1, "i16": 2, "u16": 2, "i32": 4, "u32": 4, "i64": 8, "u64": 8, "isize": 8, "usize": 8, "f32": 4, "f64": 8, "bool": 1, "char": 1, "^i32": 8, "?^i32": 8}
FIELD_SCALARS = ["i8", "u8", "i16", "u16", "i32", "u32", "i64", "u64", "f32", "f64", "bool", "char"]


@st.composite
def a_struct(draw, idx):
    if draw(st.integers(0, 2)) == 0:
        # small structs mixing INTEGER and SSE eightbytes (passed in two different register files)
        fields = [{"t": draw(st.sampled_from(["f32", "f64", "i32", "i64", "u8", "i16", "f32", "f64"])), "n": None} for _ in range(draw(st.integers(2, 4)))]
        s = {"name": f"S{idx}", "fields": fields}
        while struct_size(s) > 16:
            s["fields"] = s["fields"][:-1]
        return s
    nf = draw(st.integers(1, 5))
    fields = []
    for k in range(nf):
        t = draw(st.sampled_from(FIELD_SCALARS))
        n = draw(st.sampled_from([None, None, None, 2, 3, 4, 7]))
        fields.append({"t": t, "n": n})
    s = {"name": f"S{idx}", "fields": fields}
    if struct_size(s) > 64:
        s["fields"] = fields[:1]
        if struct_size(s) > 64:
            s["fields"] = [{"t": fields[0]["t"], "n": None}]
    return s


def struct_size(s):
    off, al = 0, 1
    for f in s["fields"]:
        a = SIZE[f["t"]]
        off = (off + a - 1) // a * a
        off += a * (f["n"] or 1)
        al = max(al, a)
    return (off + al - 1) // al * al


@st.composite
def cases(draw):
    structs = [draw(a_struct(i)) for i in range(draw(st.integers(0, 3)))]

    def a_type(allow_void=False):
        opts = list(SCALARS) * 1 + [s["name"] for s in structs] * 4
        if allow_void:
            opts += ["void", "void"]
        return opts[draw(st.integers(0, len(opts) - 1))]
    sigs = []
    for _ in range(draw(st.integers(1, 3))):
        if structs and draw(st.integers(0, 2)) == 0:
            # register pressure: k leading scalars of one class, then a struct that may straddle the last register of that
            # class, with a return value that may need a hidden pointer argument
            cls = draw(st.sampled_from(["i64", "i64", "f64", "u32"]))
            k = draw(st.integers(3, 7))
            tail = [a_type() for _ in range(draw(st.integers(0, 2)))]
            params = ([cls] * k + [structs[draw(st.integers(0, len(structs) - 1))]["name"]] + tail)[:8]
            ret = structs[draw(st.integers(0, len(structs) - 1))]["name"] if draw(st.booleans()) else a_type(True)
            sigs.append({"params": params, "ret": ret, "dir": draw(st.sampled_from(["capy-calls-c", "c-calls-capy"]))})
            continue
        np_ = draw(st.integers(0, 8))
        sigs.append({"params": [a_type() for _ in range(np_)], "ret": a_type(True), "dir": draw(st.sampled_from(["capy-calls-c", "c-calls-capy"]))})
    return {"structs": structs, "sigs": sigs, "seed": draw(st.integers(0, 1000))}


def strategy(profile):
    return cases()


def sweep_cases():
    """register-file boundaries, systematically: k leading scalars of one class, then a one- or two-eightbyte struct, for
    every return class (none, scalar, <= 16 bytes, > 16 bytes = hidden pointer), in both directions"""
    shapes = [["i64", "i64"], ["i32", "i64"], ["f64", "f64"], ["f64", "i64"], ["i64", "f64"], ["i64"], ["f32", "f32", "i32"], ["u8", "i64"]]
    rets = [None, "i64", ["i64", "i64"], ["i64", "i64", "i64"], ["f64", "f64", "f64"], ["f64", "i32"]]
    structs, names = [], {}

    def sname(fields):
        key = tuple(fields)
        if key not in names:
            names[key] = f"S{len(names)}"
            structs.append({"name": names[key], "fields": [{"t": t, "n": None} for t in fields]})
        return names[key]
    sigs = []
    for cls in ("i64", "f64"):
        for k in range(0, 8):
            for sh in shapes:
                for r in rets:
                    ret = "void" if r is None else r if isinstance(r, str) else sname(r)
                    for d in ("capy-calls-c", "c-calls-capy"):
                        sigs.append({"params": [cls] * k + [sname(sh)], "ret": ret, "dir": d})
    out = []
    for i in range(0, len(sigs), 6):
        out.append({"structs": structs, "sigs": sigs[i:i + 6], "seed": i})
    return out


# ------------------------------------------------------------------------------------------------
# constants: every scalar leaf gets its own value, derived from a counter

class Vals:
    def __init__(self, seed):
        self.n = seed * 7 + 1

    def scalar(self, t):
        self.n += 1
        n = self.n
        k = SCALARS[t][1]
        if k == "int":
            b = BITS[t]
            signed = t[0] == "i"
            v = (n * 0x9E3779B97F4A7C15) & ((1 << b) - 1)
            if signed and v >> (b - 1):
                v -= 1 << b
            if b == 64 and not signed:
                v &= (1 << 63) - 1       # keeps literals below 2^63 for both languages
            return v
        if k == "f32":
            return struct.unpack("<f", struct.pack("<f", (n % 97) * 1.25 - 40.5))[0]
        if k == "f64":
            return (n % 89) * 0.375 - 11.25 + n * 1e-3
        if k == "bool":
            return n % 2 == 1
        if k == "char":
            return 33 + n % 90
        if k == "ptr":
            return "ptr"
        return "ptr" if n % 2 else None

    def value(self, t, structs):
        if t in SCALARS:
            return self.scalar(t)
        s = structs[t]
        return [[self.scalar(f["t"]) for _ in range(f["n"])] if f["n"] else self.scalar(f["t"]) for f in s["fields"]]


def leaf_text(t, v):
    """the line printed for one scalar leaf"""
    k = SCALARS[t][1]
    if k == "int":
        return str(v if v < (1 << 63) else v - (1 << 64))
    if k == "f32":
        return str(struct.unpack("<I", struct.pack("<f", v))[0])
    if k == "f64":
        return str(struct.unpack("<q", struct.pack("<d", v))[0])
    if k == "bool":
        return "1" if v else "0"
    if k == "char":
        return str(v)
    if v is None:
        return "-1"
    return "424242"     # the pointee


def value_lines(t, v, structs):
    if t in SCALARS:
        return [leaf_text(t, v)]
    out = []
    for f, fv in zip(structs[t]["fields"], v):
        if f["n"]:
            out += [leaf_text(f["t"], x) for x in fv]
        else:
            out.append(leaf_text(f["t"], fv))
    return out


# ---- Capy text

def capy_lit(t, v):
    k = SCALARS[t][1]
    if k == "int":
        return f"{t}.({v})" if v >= 0 else f"{t}.(-{-v})" if v != -(1 << (BITS[t] - 1)) else f"({t}.(-{-(v + 1)}) - {t}.(1))"
    if k == "f32":
        return f"fb32(u32.({struct.unpack('<I', struct.pack('<f', v))[0]}))"
    if k == "f64":
        return f"fb64(u64.({struct.unpack('<Q', struct.pack('<d', v))[0]}))"
    if k == "bool":
        return "true" if v else "false"
    if k == "char":
        return f"char.(u8.({v}))"
    if k == "ptr":
        return "^pointee"
    return "nil" if v is None else "^pointee"


def capy_value(t, v, structs):
    if t in SCALARS:
        return capy_lit(t, v)
    parts = []
    for i, (f, fv) in enumerate(zip(structs[t]["fields"], v)):
        if f["n"]:
            parts.append(f"m{i} = {f['t']}.[" + ", ".join(capy_lit(f["t"], x) for x in fv) + "]")
        else:
            parts.append(f"m{i} = {capy_lit(f['t'], fv)}")
    return f"{t}.{{ " + ", ".join(parts) + " }"


def capy_print_leaf(t, e):
    k = SCALARS[t][1]
    if k in ("int", "bool"):
        return f'printf("%ld\\n", i64.({e}));'
    if k == "char":
        return f'printf("%ld\\n", i64.(u8.({e})));'
    if k == "f32":
        return f'printf("%ld\\n", i64.(bits32({e})));'
    if k == "f64":
        return f'printf("%ld\\n", i64.(bits64({e})));'
    if k == "ptr":
        return f'printf("%ld\\n", i64.({e}^));'
    return f'if #is_variant({e}, nil) {{ printf("%ld\\n", -1); }} else {{ printf("%ld\\n", i64.(#unwrap({e})^)); }};'


def capy_print(t, e, structs):
    if t in SCALARS:
        return [capy_print_leaf(t, e)]
    out = []
    for i, f in enumerate(structs[t]["fields"]):
        if f["n"]:
            out += [capy_print_leaf(f["t"], f"{e}.m{i}[{j}]") for j in range(f["n"])]
        else:
            out.append(capy_print_leaf(f["t"], f"{e}.m{i}"))
    return out


# ---- C text

def c_type(t):
    return SCALARS[t][0] if t in SCALARS else ("void" if t == "void" else t)


def c_lit(t, v):
    k = SCALARS[t][1]
    if k == "int":
        return f"(({SCALARS[t][0]}){v}LL)" if v != -(1 << 63) else "((int64_t)(-9223372036854775807LL - 1))"
    if k == "f32":
        return f"from_bits32({struct.unpack('<I', struct.pack('<f', v))[0]}u)"
    if k == "f64":
        return f"from_bits64({struct.unpack('<Q', struct.pack('<d', v))[0]}ull)"
    if k == "bool":
        return "1" if v else "0"
    if k == "char":
        return str(v)
    if k == "ptr":
        return "&c_pointee"
    return "0" if v is None else "&c_pointee"


def c_value(t, v, structs):
    if t in SCALARS:
        return c_lit(t, v)
    parts = []
    for f, fv in zip(structs[t]["fields"], v):
        if f["n"]:
            parts.append("{" + ", ".join(c_lit(f["t"], x) for x in fv) + "}")
        else:
            parts.append(c_lit(f["t"], fv))
    return f"(({t}){{" + ", ".join(parts) + "})"


def c_print_leaf(t, e):
    k = SCALARS[t][1]
    if k in ("int", "bool", "char"):
        return f'printf("%ld\\n", (long)({e}));'
    if k == "f32":
        return f'printf("%ld\\n", (long)bits32({e}));'
    if k == "f64":
        return f'printf("%ld\\n", (long)bits64({e}));'
    if k == "ptr":
        return f'printf("%ld\\n", (long)*({e}));'
    return f'if (({e}) == 0) printf("%ld\\n", -1L); else printf("%ld\\n", (long)*({e}));'


def c_print(t, e, structs):
    if t in SCALARS:
        return [c_print_leaf(t, e)]
    out = []
    for i, f in enumerate(structs[t]["fields"]):
        if f["n"]:
            out += [c_print_leaf(f["t"], f"{e}.m{i}[{j}]") for j in range(f["n"])]
        else:
            out.append(c_print_leaf(f["t"], f"{e}.m{i}"))
    return out


CAPY_PRELUDE = """printf :: (fmt: str, n: i64) -> i32 extern;
puts :: (s: str) -> i32 extern;
fflush :: (f: usize) -> i32 extern;
bits32 :: (x: f32) -> u32 { (^u32.(rawptr.(^x)))^ }
bits64 :: (x: f64) -> u64 { (^u64.(rawptr.(^x)))^ }
fb32 :: (x: u32) -> f32 { (^f32.(rawptr.(^x)))^ }
fb64 :: (x: u64) -> f64 { (^f64.(rawptr.(^x)))^ }
pointee : i32 : 424242;
"""
C_PRELUDE = """#include <stdint.h>
#include <stdio.h>
#include <string.h>
static uint32_t bits32(float x) { uint32_t b; memcpy(&b, &x, 4); return b; }
static uint64_t bits64(double x) { uint64_t b; memcpy(&b, &x, 8); return b; }
static float from_bits32(uint32_t b) { float x; memcpy(&x, &b, 4); return x; }
static double from_bits64(uint64_t b) { double x; memcpy(&x, &b, 8); return x; }
static int32_t c_pointee = 424242;
"""


def build(case):
    structs = {s["name"]: s for s in case["structs"]}
    vals = Vals(case["seed"])
    capy = [CAPY_PRELUDE]
    c = [C_PRELUDE]
    for s in case["structs"]:
        capy.append(f"{s['name']} :: struct {{ " + ", ".join(f"m{i}: " + (f"[{f['n']}]{f['t']}" if f["n"] else f["t"]) for i, f in enumerate(s["fields"])) + " };")
        c.append("typedef struct { " + " ".join(f"{SCALARS[f['t']][0]} m{i}" + (f"[{f['n']}]" if f["n"] else "") + ";" for i, f in enumerate(s["fields"])) + f" }} {s['name']};")
    main = []
    expected = []
    for k, sig in enumerate(case["sigs"]):
        ps, ret = sig["params"], sig["ret"]
        args = [vals.value(t, structs) for t in ps]
        rv = None if ret == "void" else vals.value(ret, structs)
        capy_params = ", ".join(f"a{i}: {t}" for i, t in enumerate(ps))
        c_params = ", ".join(f"{c_type(t)} a{i}" for i, t in enumerate(ps)) or "void"
        arrow = "" if ret == "void" else f" -> {ret}"
        expected.append(f"sig{k}")
        for t, a in zip(ps, args):
            expected += value_lines(t, a, structs)
        expected.append(f"ret{k}")
        if ret != "void":
            expected += value_lines(ret, rv, structs)
        if sig["dir"] == "capy-calls-c":
            capy.append(f"cfn{k} :: ({capy_params}){arrow} extern;")
            body = [f'puts("sig{k}");'] + [l for i, t in enumerate(ps) for l in c_print(t, f"a{i}", structs)] + [f'puts("ret{k}");']
            if ret != "void":
                body.append(f"return {c_value(ret, rv, structs)};")
            c.append(f"{c_type(ret)} cfn{k}({c_params}) {{\n    " + "\n    ".join(body) + "\n}")
            call = f"cfn{k}(" + ", ".join(capy_value(t, a, structs) for t, a in zip(ps, args)) + ")"
            if ret == "void":
                main.append(f"    {call};")
            else:
                main.append(f"    r{k} : {ret} = {call};")
                main += ["    " + l for l in capy_print(ret, f"r{k}", structs)]
        else:
            # the Capy function C calls back
            body = [f'puts("sig{k}");'] + [l for i, t in enumerate(ps) for l in capy_print(t, f"a{i}", structs)] + [f'puts("ret{k}");']
            tail = "" if ret == "void" else f"\n    {capy_value(ret, rv, structs)}"
            capy.append(f"cb{k} :: ({capy_params}){arrow} {{\n    " + "\n    ".join(body) + tail + "\n}")
            fn_ty = f"({capy_params}){arrow}" if ret != "void" else f"({capy_params}) -> void"
            capy.append(f"drive{k} :: (cb: {fn_ty}, p: ^i32) extern;")
            cargs = ", ".join(c_value(t, a, structs).replace("&c_pointee", "p") for t, a in zip(ps, args))
            if ret == "void":
                dbody = [f"cb({cargs});"]
            else:
                dbody = [f"{c_type(ret)} r = cb({cargs});"] + c_print(ret, "r", structs)
            c.append(f"void drive{k}({c_type(ret)} (*cb)({c_params}), int32_t *p) {{\n    " + "\n    ".join(dbody) + "\n}")
            main.append(f"    drive{k}(cb{k}, ^pointee);")
    capy.append("main :: () {\n" + "\n".join(main) + "\n    fflush(0);\n}")
    return "\n".join(capy) + "\n", "\n".join(c) + "\n", "".join(l + "\n" for l in expected)


def sig_class(case):
    structs = {s["name"]: s for s in case["structs"]}
    out = set()
    for sig in case["sigs"]:
        for t in sig["params"] + [sig["ret"]]:
            if t in structs:
                sz = struct_size(structs[t])
                kinds = {SCALARS[f["t"]][1] in ("f32", "f64") for f in structs[t]["fields"]}
                out.add(("struct<=16" if sz <= 16 else "struct>16") + ("-mixed" if len(kinds) == 2 else "-sse" if kinds == {True} else "-int"))
        if len(sig["params"]) > 6:
            out.add("stack-args")
        if len(sig["params"]) >= 4 and len(set(sig["params"][:3])) == 1 and any(p_ in structs for p_ in sig["params"]):
            out.add("register-pressure-before-struct")
        if sig["ret"] in structs and struct_size(structs[sig["ret"]]) > 16:
            out.add("hidden-return-pointer")
        out.add(sig["dir"])
    return out


def check(case, stats, scratch, profile):
    capy_src, c_src, expected = build(case)
    d = os.path.join(scratch, "c19")
    shutil.rmtree(d, ignore_errors=True)
    os.makedirs(d)
    open(os.path.join(d, "main.capy"), "w").write(capy_src)
    open(os.path.join(d, "helper.c"), "w").write(c_src)
    stats.evaluations += 1
    classes = sig_class(case)
    for c_ in classes:
        stats.cls(c_)
    if any(c_.startswith("struct") for c_ in classes):
        stats.nontrivial.add(h64(capy_src))
    replay = {"case": case}
    try:
        pr = subprocess.run([core.CAPY, "build", "main.capy", "--mod-dir", core.MOD_DIR, "--color", "never", "--no-exec"], cwd=d, stdout=subprocess.PIPE, stderr=subprocess.STDOUT, timeout=40)
    except subprocess.TimeoutExpired:
        stats.inconclusive += 1
        return
    text = runner.clean(pr.stdout.decode("utf-8", "replace"))
    ck = runner.crash_key_of(text) or (f"crash:signal-{-pr.returncode}" if pr.returncode < 0 else None)
    if ck:
        raise Fail(ck, f"compiler crashed\n{text[-1200:]}\n--- main.capy ---\n{capy_src}", replay)
    errs = runner.error_lines(text)
    if errs or not os.path.exists(os.path.join(d, "out", "main.o")):
        raise Fail("C19:rejected:" + runner.normalise_msg(errs[0] if errs else "no object")[:70], f"the Capy side is rejected: {errs[:3]}\n{text[-800:]}\n--- main.capy ---\n{capy_src}", replay)
    g = subprocess.run(["gcc", "-O1", "-c", "helper.c", "-o", "helper.o"], cwd=d, stdout=subprocess.PIPE, stderr=subprocess.STDOUT)
    if g.returncode != 0:
        raise RuntimeError("gcc rejected the generated helper:\n" + g.stdout.decode()[-1500:] + "\n" + c_src)
    l = subprocess.run(["gcc", "out/main.o", "helper.o", "-o", "prog"], cwd=d, stdout=subprocess.PIPE, stderr=subprocess.STDOUT)
    if l.returncode != 0:
        raise Fail("C19:link-failure", f"linking failed:\n{l.stdout.decode()[-800:]}\n--- main.capy ---\n{capy_src}", replay)
    try:
        r = subprocess.run(["./prog"], cwd=d, stdout=subprocess.PIPE, stderr=subprocess.STDOUT, timeout=10)
    except subprocess.TimeoutExpired:
        raise Fail("C19:hang", f"the linked program does not finish\n--- main.capy ---\n{capy_src}\n--- helper.c ---\n{c_src}", replay)
    got = r.stdout.decode("utf-8", "replace")
    if got != expected or r.returncode < 0:
        gl, el = got.split("\n"), expected.split("\n")
        i = next((k for k in range(min(len(gl), len(el))) if gl[k] != el[k]), min(len(gl), len(el)))
        section = next((x for x in reversed(el[:i + 1]) if x.startswith(("sig", "ret"))), "?")
        kind = "argument" if section.startswith("sig") else "return-value"
        sig = case["sigs"][int(section[3:])] if section[3:].isdigit() else {}
        raise Fail(f"C19:{kind}-corrupted:{sig.get('dir', '?')}", f"output differs at line {i} (in section {section}, signature {sig}): expected {el[i:i+3]}, got {gl[i:i+3]}; exit {r.returncode}\n--- main.capy ---\n{capy_src}\n--- helper.c ---\n{c_src}", replay)
    stats.sample({"signatures": case["sigs"], "structs": case["structs"]})
    shutil.rmtree(d, ignore_errors=True)


def replay_payload(payload, scratch):
    st_ = core.Stats()
    try:
        check(payload["case"], st_, scratch, "replay")
    except Fail as f:
        return f.key
    return None


RULE = ("a deterministic sweep of register-file boundaries (0-7 leading i64 / f64 scalars, then one of 8 small struct shapes, x 6 return classes incl. hidden-pointer returns, x both directions) "
        "and generated programs: 1-3 signatures per program, each with 0-8 parameters and a return type drawn from i8..u64, isize, usize, f32, f64, bool, char, ^i32, ?^i32 and 0-3 generated structs (1-5 "
        "fields of scalars or arrays of 2-7 scalars, <= 64 bytes, all-integer / all-float / mixed), direction Capy->C (extern) or C->Capy (function pointer); every scalar leaf has its own "
        "constant, floats compared as bit patterns. Non-trivial = at least one struct parameter or return value; distinct by program.")


def run(ctx):
    if ctx.replay:
        scratch = core.make_scratch("C19", "replay")
        payload = json.load(open(ctx.replay))
        ctx.evaluations = 1
        k = replay_payload(payload, scratch)
        if k:
            ctx.violations[k] = ("replayed case still fails", payload)
        shutil.rmtree(scratch, ignore_errors=True)
        return ctx.finish(RULE, False, [])
    sweep = sweep_cases()
    infra0 = core.run_batches(ctx, "pyv.c19", sweep)
    total = 8000 if ctx.thorough else 640
    infra = core.hypothesis_search(ctx, "pyv.c19", total)
    scratch = core.make_scratch("C19", "kf")
    rc = ctx.finish(RULE, False, [
        "the host gcc (x86-64 System V) is the reference for the C side; struct layout equality with C is C17's business and is relied on here",
        "the object is produced with --no-exec and linked with the gcc-compiled helper by the check itself",
    ], replayer=lambda p: replay_payload(p, scratch), min_nontrivial=50 if not ctx.collect_all() else 0)
    shutil.rmtree(scratch, ignore_errors=True)
    return 2 if (infra or infra0) and rc == 0 else rc
