"""Runs the real CLI on a set of files in a fresh scratch directory and then the built executable.
Classifies the outcome; never interprets a wall-clock timeout as a violation by itself."""
import os, re, shutil, subprocess, signal, itertools

from .core import CAPY, MOD_DIR

_counter = itertools.count()

NOISE = re.compile(r"^(split_aggregate|both None|no max|local not type|local mutable|not const |unsafe )")
TIMING = re.compile(r"\b(in|took|parsed in) \d+\.\d+s")

PANIC_RE = re.compile(r"thread '[^']*' panicked at ([^\n:]+):\d+:\d+:\n([^\n]*)")


class Outcome:
    """kind: 'ran' (accepted, linked, executed), 'rejected' (diagnostics, exit 1),
    'crash' (panic / verifier / signal / internal error), 'link-failure', 'timeout', 'built' (no exec requested)"""
    __slots__ = ("kind", "compiler_out", "compiler_rc", "stdout", "status", "signal", "crash_key", "errors", "dir", "obj")

    def __init__(self):
        self.kind = None
        self.compiler_out = ""
        self.compiler_rc = None
        self.stdout = b""
        self.status = None
        self.signal = None
        self.crash_key = None
        self.errors = []
        self.dir = None
        self.obj = None

    def brief(self):
        if self.kind == "ran":
            return f"ran status={self.status} signal={self.signal} stdout={self.stdout[:200]!r}"
        if self.kind == "crash":
            return f"crash {self.crash_key}"
        if self.kind == "rejected":
            return "rejected: " + " | ".join(self.errors[:3])
        return self.kind


def normalise_msg(msg):
    msg = msg.split("\n")[0][:160]
    return re.sub(r"\d+", "N", msg)


def crash_key_of(text):
    m = PANIC_RE.search(text)
    if m:
        loc = m.group(1)
        loc = loc[len("/repo/"):] if loc.startswith("/repo/") else loc
        if "/registry/src/" in loc:
            loc = loc.split("/registry/src/")[1].split("/", 1)[1]
        msg = m.group(2)
        # drop quoted payloads (type dumps) and a leading `<location> #<expr> : ` prefix
        if " is out of bounds of `" in msg or " is not a char boundary" in msg:
            # the payload is the user's text and may itself contain backticks
            msg = msg.split(" of `")[0].split("; it is inside")[0]
        msg = msg.split(", and yet the data is")[0]      # the payload that follows varies (None / Some(..)), the site is the same
        msg = re.sub(r"`[^`]*`", "`_`", msg)
        msg = re.sub(r"^@?[\w:#<>.]+ (expr )?#\d+ (: )?", "", msg)
        # long type dumps: keep the leading sentence
        msg = re.split(r"[:{(]", msg, 1)[0] if len(msg) > 80 else msg
        return f"crash:{loc}:{normalise_msg(msg)}"
    if "capy_verif: parser fuel exhausted" in text:
        return "hang:parser:fuel-exhausted"
    if "Error defining function" in text or "Compilation(Verifier" in text or "VerifierErrors" in text:
        m2 = re.search(r"Unsupported\(\"[^`]*`v\d+ = ([a-z_0-9.]+)", text)
        if m2:
            return "codegen-error:unsupported:" + m2.group(1)
        m2 = re.search(r"- inst\d+ \([^)]*\): ([^\n]*)", text) or re.search(r"Error defining function:\n([^\n]*)", text)
        return "verifier:" + normalise_msg(m2.group(1) if m2 else "error")
    if "Cranelift Error" in text:
        return "cranelift-error"
    if "comptime compilation panicked" in text:
        return "crash:comptime-compilation-panicked"
    if "stack overflow" in text or "has overflowed its stack" in text:
        return "crash:stack-overflow"
    if "memory allocation of" in text and "failed" in text:
        return "crash:memory-exhausted"
    return None


def clean(text):
    lines = [l for l in text.split("\n") if not NOISE.match(l)]
    return "\n".join(lines)


def error_lines(text):
    return [l for l in text.split("\n") if l.startswith("error")]


def run_case(scratch, files, main="main.capy", extra_args=(), run=True, compile_timeout=20, run_timeout=10,
             keep=False, stdin=None, mod_dir=MOD_DIR, exe_args=(), rlimit_as=None):
    """files: {relative path: text}. Returns Outcome."""
    n = next(_counter)
    d = os.path.join(scratch, f"c{n}")
    shutil.rmtree(d, ignore_errors=True)
    os.makedirs(d)
    for rel, text in files.items():
        p = os.path.join(d, rel)
        os.makedirs(os.path.dirname(p), exist_ok=True)
        with open(p, "w", encoding="utf-8", errors="surrogateescape") as f:
            f.write(text)
    o = Outcome()
    o.dir = d
    cmd = [CAPY, "build", main, "--mod-dir", mod_dir, "--color", "never", *extra_args]
    pre = None
    if rlimit_as:
        import resource

        def pre():
            resource.setrlimit(resource.RLIMIT_AS, (rlimit_as, rlimit_as))
    try:
        p = subprocess.run(cmd, cwd=d, stdout=subprocess.PIPE, stderr=subprocess.STDOUT, timeout=compile_timeout,
                           env={**os.environ, "RUST_BACKTRACE": "0"}, preexec_fn=pre)
    except subprocess.TimeoutExpired as e:
        o.kind = "timeout"
        o.compiler_out = clean((e.stdout or b"").decode("utf-8", "replace"))[:4000]
        if not keep:
            shutil.rmtree(d, ignore_errors=True)
        return o
    text = clean(p.stdout.decode("utf-8", "replace"))
    o.compiler_out = text
    o.compiler_rc = p.returncode
    stem = os.path.splitext(os.path.basename(main))[0]
    obj = os.path.join(d, "out", stem + ".o")
    exe = os.path.join(d, "out", stem)
    ck = crash_key_of(text)
    if p.returncode < 0:
        o.kind = "crash"
        o.signal = -p.returncode
        o.crash_key = ck or f"crash:signal-{signal.Signals(-p.returncode).name}"
    elif ck:
        o.kind = "crash"
        o.crash_key = ck
    elif p.returncode not in (0, 1):
        o.kind = "crash"
        o.crash_key = f"crash:exit-{p.returncode}"
    else:
        o.errors = error_lines(text)
        if os.path.exists(obj):
            o.obj = obj
        if "failed!" in text and ("gcc" in text or "zig" in text):
            o.kind = "link-failure"
        elif o.errors or p.returncode == 1:
            o.kind = "rejected"
        elif not os.path.exists(obj):
            o.kind = "crash"
            o.crash_key = "internal:no-object-and-no-error"
        elif "--no-exec" in extra_args or not run:
            o.kind = "built"
        elif not os.path.exists(exe):
            o.kind = "link-failure"
        else:
            try:
                r = subprocess.run([exe, *exe_args], cwd=d, stdout=subprocess.PIPE, stderr=subprocess.STDOUT, timeout=run_timeout, input=stdin)
                o.kind = "ran"
                o.stdout = r.stdout
                if r.returncode < 0:
                    o.signal = -r.returncode
                    o.status = None
                else:
                    o.status = r.returncode
            except subprocess.TimeoutExpired as e:
                o.kind = "exe-timeout"
                o.stdout = e.stdout or b""
    if not keep:
        shutil.rmtree(d, ignore_errors=True)
    return o
