"""C04 — a comptime block yields what the same code yields at runtime.

A generated deterministic, terminating expression B of a generated result type (every integer
width, bool, char, arrays, structs with padding, enums, optionals, error unions; plus fixed float,
`str` and `type` cases). The program holds `rt : T = B;`, `ct : T = comptime { B };` (local), and a
global `g : T : comptime { B };`, possibly nested comptime, B may call pure functions and read
const globals. Oracle: print(ct) == print(rt) == reference interpreter. Side-effect clause: a
`puts(marker)` inside the comptime block must appear exactly once in the compiler's output and
never in the executable's."""
import json, shutil

from hypothesis import strategies as st

from . import runner, core, interp, gen, c01
from .core import Fail, h64
from .lang import *  # noqa

FEATURES = {"wide-ints", "structs", "arrays", "enums", "optionals", "error-unions", "distinct", "casts", "globals", "nested-aggregates", "implicit-widening", "switch"}


@st.composite
def cases(draw):
    g = gen.G(draw, {"features": FEATURES, "max_fns": 3, "max_types": 3, "avoid": c01.current_avoid()})
    g.make_types()
    g.make_consts()
    # pure helper functions only
    for i in range(g.int(0, 2)):
        f = g.make_fn(i)
        if not g.pure.get(f.name, False):
            g.p.fns.remove(f)
            g.fns.remove(f)
    env = [(n, t, False) for n, t, _ in g.p.consts]
    T = g.value_ty(2)
    if g.int(0, 2):
        # two thirds of the cases: an aggregate or sum type where one can be had
        for _ in range(4):
            if not is_scalar(strip_distinct(T)):
                break
            T = g.value_ty(2)
    e = g.rhs(T, env, 3)
    placement = draw(st.sampled_from(["local", "global", "nested", "both", "global-array"]))
    marker = draw(st.booleans())
    global_exact = draw(st.booleans())
    more = []
    if placement == "global-array":
        if T.src().startswith("["):
            placement = "global"
        else:
            more = [g.rhs(T, env, 2) for _ in range(g.int(1, 3))]
    return {"program": g.p, "T": T, "e": e, "placement": placement, "marker": marker, "util": g, "global_exact": global_exact, "more": more}


CONVERSION_KEYS = ("C04:global-conversion:", "crash:crates/codegen/src/compiler/functions.rs:called `_` on a `_` value")
_conv = []


def conversion_open():
    """listed open finding: a global `g : T : comptime { B }` whose block has a type that is only implicitly convertible to T"""
    if not _conv:
        _conv.append(any(f.get("status") == "open" and f["key"].startswith(CONVERSION_KEYS) for f in core.load_findings("C04")))
    return _conv[0]


def global_is_exact(case):
    return case["global_exact"] or conversion_open()


def strategy(profile):
    return cases()


def build(case):
    p, T, e, g = case["program"], case["T"], case["e"], case["util"]
    body = [PutS("@rt"), Let("rt", T, False, e)]
    body += g.print_value(Var("rt", T), T)
    extra_globals = []
    pl = case["placement"]
    if pl in ("local", "both", "nested"):
        ce = Comptime(e, T) if pl != "nested" else Comptime(Comptime(e, T), T)
        if case["marker"]:
            ce = Raw("comptime { puts(\"CT_MARKER_7f3a\"); " + esrc(e) + " }", T)
            ce.sem = e
        body.append(PutS("@ct"))
        body.append(Let("ct", T, False, ce))
        body += g.print_value(Var("ct", T), T)
    if pl in ("global", "both"):
        if global_is_exact(case):
            # the block itself has exactly the declared type
            extra_globals.append(f"gct : {T.src()} : comptime {{ tmp : {T.src()} = {esrc(e)}; tmp }};")
        else:
            extra_globals.append(f"gct : {T.src()} : comptime {{ {esrc(e)} }};")
        body.append(PutS("@gct"))
        body += g.print_value(Var("gct", T), T)
    if pl == "global-array":
        # a constant global array literal whose items are comptime blocks
        elems = [e] + case["more"]
        AT = Array(len(elems), T)
        items = ", ".join(f"comptime {{ tmp : {T.src()} = {esrc(x)}; tmp }}" for x in elems)
        extra_globals.append(f"gct :: {T.src()}.[{items}];")
        body.append(PutS("@gct"))
        for i in range(len(elems)):
            body += g.print_value(Index(Var("gct", AT), Lit(USIZE, i), T), T)
            # the run-time twin of the same element
            body.append(Let(f"rte{i}", T, False, elems[i]))
            body += g.print_value(Var(f"rte{i}", T), T)
    main = FnDecl("main", [], VOID, body, None)
    p2 = Program()
    p2.types, p2.consts, p2.fns, p2.externs = p.types, p.consts, [f for f in p.fns if f.name != "main"] + [main], extra_globals
    return p2


def check(case, stats, scratch, profile):
    p = build(case)
    T, e = case["T"], case["e"]
    src = program_src(p)
    it = interp.Interp(p)
    # the global's value for the interpreter
    try:
        if case["placement"] in ("global", "both"):
            it.globals["gct"] = interp.Cell(it.ev(e, [{}]))
        if case["placement"] == "global-array":
            it.globals["gct"] = interp.Cell([interp.cp(it.ev(x, [{}])) for x in [e] + case["more"]])
        out, status, fault = it.run_main()
    except interp.StepLimit:
        stats.cls("interp-step-limit")
        return
    if fault:
        stats.cls("faulting-expression-skipped")
        return
    if case["marker"] and case["placement"] in ("local", "both", "nested"):
        pass
    stats.evaluations += 1
    t0 = strip_distinct(T)
    nontrivial = not (isinstance(t0, Int) and t0.bits == 32)
    if nontrivial:
        stats.nontrivial.add(h64(src))
    stats.cls("type." + type(t0).__name__)
    stats.cls("placement." + case["placement"])
    shape = type(t0).__name__
    replay = {"files": {"main.capy": src}, "expect": {"stdout": out}, "marker": bool(case["marker"] and case["placement"] in ("local", "both", "nested")), "shape": shape,
              "global_exact": global_is_exact(case)}
    if case["placement"] in ("global", "both"):
        stats.cls("global-form." + ("exact-type" if global_is_exact(case) else "implicit-conversion"))
    o = runner.run_case(scratch, {"main.capy": src})
    verdict(o, out, replay, src, shape)
    if nontrivial:
        stats.sample({"program": src[-1400:], "stdout": out[:200]})


STR_SHAPES = ("fixed:str", "fixed:struct-with-str")


def verdict(o, out, replay, src, shape):
    try:
        verdict_inner(o, out, replay, src, shape)
    except Fail as f:
        # a `str` produced by a comptime block points into memory of the compile-time JIT; how the dangling
        # pointer shows (garbage text, SIGSEGV, or by luck nothing) varies from run to run: one key for all of it
        if shape in STR_SHAPES and not f.key.startswith("crash:") and "rejected" not in f.key:
            raise Fail("C04:str-result-dangling", f.desc, f.replay)
        raise


def verdict_inner(o, out, replay, src, shape):
    if o.kind in ("timeout", "exe-timeout"):
        return
    if o.kind == "crash":
        raise Fail(o.crash_key, f"compiler crashed\n{o.compiler_out[-1200:]}\n--- program ---\n{src}", replay)
    if o.kind == "rejected":
        raise Fail("C04:rejected:" + runner.normalise_msg(o.errors[0] if o.errors else "?")[:80], f"program rejected\n{o.compiler_out[-1500:]}\n--- program ---\n{src}", replay)
    if o.kind != "ran" or o.signal is not None:
        raise Fail(f"C04:{o.kind}:signal-{o.signal}", f"{o.brief()}\n--- program ---\n{src}", replay)
    got = o.stdout.decode("utf-8", "replace")
    if replay.get("marker"):
        n_compile = o.compiler_out.count("CT_MARKER_7f3a")
        n_run = got.count("CT_MARKER_7f3a")
        if n_compile < 1 or n_run != 0:
            raise Fail("C04:side-effect", f"the comptime block's puts marker appears {n_compile} time(s) in the compiler output and {n_run} time(s) in the executable's output (expected >= 1 and 0)\n--- program ---\n{src}", replay)
    if got != out:
        gs, es = segments(got), segments(out)
        for name, exp_seg in es.items():
            got_seg = gs.get(name)
            if got_seg != exp_seg:
                if name == "@gct" and not replay.get("global_exact", True):
                    key = f"C04:global-conversion:{shape}"
                else:
                    key = f"C04:value-differs:{shape}:{name[1:]}"
                raise Fail(key, f"the value printed for `{name[1:]}` differs: expected {exp_seg!r}, got {got_seg!r} (rt = evaluated at run time, ct = local comptime block, gct = global comptime block)\n--- program ---\n{src}", replay)
        raise Fail(f"C04:value-differs:{shape}:other", f"output differs: expected {out!r}, got {got!r}\n--- program ---\n{src}", replay)


def segments(text):
    segs, cur = {}, "@head"
    for line in text.split("\n"):
        if line.startswith("@"):
            cur = line
            segs[cur] = []
        else:
            segs.setdefault(cur, []).append(line)
    return {k: "\n".join(v) for k, v in segs.items()}


import struct as _struct
F64_BITS = _struct.unpack("<q", _struct.pack("<d", 1.5 * 2.25 + 0.1))[0]

FIXED = [
    # (name, source, expected stdout)
    ("f64-arith", 'printf :: (fmt: str, n: i64) -> i32 extern;\nbits64 :: (x: f64) -> u64 { (^u64.(rawptr.(^x)))^ }\nmain :: () {\n    rt : f64 = 1.5 * 2.25 + 0.1;\n    ct : f64 = comptime { 1.5 * 2.25 + 0.1 };\n    printf("%ld\\n", i64.(bits64(rt) == bits64(ct)));\n    printf("%ld\\n", i64.(bits64(ct)));\n}\n', f"1\n{F64_BITS}\n"),
    ("f32-div", 'printf :: (fmt: str, n: i64) -> i32 extern;\nbits32 :: (x: f32) -> u32 { (^u32.(rawptr.(^x)))^ }\nmain :: () {\n    a : f32 = 1.0;\n    rt : f32 = a / 3.0;\n    ct : f32 = comptime { b : f32 = 1.0; b / 3.0 };\n    printf("%ld\\n", i64.(bits32(rt)));\n    printf("%ld\\n", i64.(bits32(ct)));\n}\n', "1051372203\n1051372203\n"),
    ("type-value", 'printf :: (fmt: str, n: i64) -> i32 extern;\nflag :: true;\nmain :: () {\n    RT :: if flag { i16 } else { u64 };\n    CT :: comptime { if flag { i16 } else { u64 } };\n    x : CT = 300;\n    printf("%ld\\n", i64.(CT == i16));\n    printf("%ld\\n", i64.(CT == u64));\n    printf("%ld\\n", i64.(x));\n}\n', "1\n0\n300\n"),
    ("str", 'puts :: (s: str) -> i32 extern;\nS :: comptime { "hello comptime" };\nmain :: () {\n    rt : str = "hello comptime";\n    puts(rt);\n    puts(S);\n    ct : str = comptime { "local one" };\n    puts(ct);\n}\n', "hello comptime\nhello comptime\nlocal one\n"),
    ("struct-with-str", 'puts :: (s: str) -> i32 extern;\nP :: struct { name: str, n: i32 };\nmain :: () {\n    ct : P = comptime { P.{ name = "inside", n = 3 } };\n    puts(ct.name);\n}\n', "inside\n"),
    ("array-loop", 'printf :: (fmt: str, n: i64) -> i32 extern;\nmain :: () {\n    ct : [4]u16 = comptime { a : [4]u16; i : usize = 0; while i < 4 { a[i] = u16.(i * i + 1); i += 1; } a };\n    printf("%ld\\n", i64.(ct[0])); printf("%ld\\n", i64.(ct[3]));\n}\n', "1\n10\n"),
    ("reads-const-global", 'printf :: (fmt: str, n: i64) -> i32 extern;\nK : i64 : 41;\nG : i64 : comptime { K + 1 };\nmain :: () {\n    printf("%ld\\n", G);\n    printf("%ld\\n", comptime { G * 2 });\n}\n', "42\n84\n"),
    ("float-globals", 'printf :: (fmt: str, n: i64) -> i32 extern;\nbits32 :: (x: f32) -> u32 { (^u32.(rawptr.(^x)))^ }\nbits64 :: (x: f64) -> u64 { (^u64.(rawptr.(^x)))^ }\nhalf :: (x: f32) -> f32 { x / 2.0 }\n'
     'ga : f32 : comptime { x : f32 = 6.5; half(x) + 0.25 };\ngb : f64 : comptime { x : f64 = 6.5; x / 2.0 + 0.25 };\ngc : f32 : comptime { y : f32 = 0.1; y };\ngd : f32 : comptime { y : f32 = -2.25; y * 3.0 };\n'
     'main :: () {\n    ra : f32 = { x : f32 = 6.5; half(x) + 0.25 };\n    rc : f32 = 0.1;\n    rd : f32 = { y : f32 = -2.25; y * 3.0 };\n'
     '    printf("%ld\\n", i64.(bits32(ga) == bits32(ra)));\n    printf("%ld\\n", i64.(bits32(ga)));\n    printf("%ld\\n", i64.(bits64(gb)));\n    printf("%ld\\n", i64.(bits32(gc) == bits32(rc)));\n    printf("%ld\\n", i64.(bits32(gd) == bits32(rd)));\n    printf("%ld\\n", i64.(bits32(gd)));\n}\n',
     f"1\n{_struct.unpack('<I', _struct.pack('<f', 3.5))[0]}\n{_struct.unpack('<q', _struct.pack('<d', 3.5))[0]}\n1\n1\n{_struct.unpack('<I', _struct.pack('<f', -6.75))[0]}\n"),
    ("side-effect-once", 'puts :: (s: str) -> i32 extern;\nprintf :: (fmt: str, n: i64) -> i32 extern;\nG : i64 : comptime { puts("CT_MARKER_7f3a"); 5 };\nmain :: () {\n    printf("%ld\\n", G);\n    printf("%ld\\n", G + G);\n}\n', "5\n10\n"),
]


def replay_payload(payload, scratch):
    o = runner.run_case(scratch, payload["files"])
    try:
        if "global_exact" not in payload:
            payload = dict(payload, global_exact=True)
        verdict(o, payload["expect"]["stdout"], payload, payload["files"]["main.capy"], payload.get("shape", "replay"))
    except Fail as f:
        return f.key
    return None


RULE = ("generated pure expression B of a generated type T (ints of every width, bool, char, arrays, structs, enums, optionals, error unions, distinct; nested; calling pure "
        "functions and reading const globals) evaluated as `rt : T = B`, `ct : T = comptime { B }` (local, nested), a global `g : T : comptime { B }` and a constant global array `T.[comptime { B1 }, comptime { B2 }, ...]`, all printed leaf by leaf; "
        "a puts-marker side effect in half of the local comptime blocks; plus 8 fixed programs for floats, `type`, `str`, loops and global side effects. "
        "Non-trivial = result type is not a bare i32 (aggregate, sum type, other widths, float, str, type); distinct by program text.")


def run(ctx):
    if ctx.replay:
        scratch = core.make_scratch("C04", "replay")
        payload = json.load(open(ctx.replay))
        ctx.evaluations = 1
        k = replay_payload(payload, scratch)
        if k:
            ctx.violations[k] = ("replayed case still fails", payload)
        shutil.rmtree(scratch, ignore_errors=True)
        return ctx.finish(RULE, False, [])
    scratch = core.make_scratch("C04", "fixed")
    for name, src, exp in FIXED:
        ctx.evaluations += 1
        ctx.nontrivial.add(h64(src))
        payload = {"files": {"main.capy": src}, "expect": {"stdout": exp}, "marker": "CT_MARKER" in src, "shape": "fixed:" + name}
        o = runner.run_case(scratch, payload["files"])
        try:
            verdict(o, exp, payload, src, "fixed:" + name)
        except Fail as f:
            if ctx.is_known(f.key):
                ctx.known_hits[f.key] = ctx.known_hits.get(f.key, 0) + 1
                ctx.first_desc.setdefault(f.key, f.desc)
            else:
                ctx.violations[f.key] = (f.desc, f.replay)
    total = 8000 if ctx.thorough else 640
    infra = core.hypothesis_search(ctx, "pyv.c04", total)
    rc = ctx.finish(RULE, False, [
        "B is deterministic, terminating and side-effect free (except the marker); results the checker refuses (pointers, functions) are not generated",
        "the compiler's stdout is where comptime side effects of the JIT appear (puts resolves to libc inside the JIT)",
    ], replayer=lambda p: replay_payload(p, scratch), min_nontrivial=50 if not ctx.collect_all() else 0)
    shutil.rmtree(scratch, ignore_errors=True)
    return 2 if infra and rc == 0 else rc
