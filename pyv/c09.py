"""C09 — literals denote exactly their written values or are rejected.

Each generated program holds a batch of independent literal *uses* (one per line block). The batch
is compiled twice: once complete (the set of lines with an error must be exactly the set of uses
the oracle rejects) and once with the oracle-accepted uses only (each must print its value).
Oracle: an independent spelling -> value parser; fits-the-type rule; C escape meanings."""
import json, re, shutil, struct
from fractions import Fraction

import numpy as np
from hypothesis import strategies as st

from . import runner, core
from .core import Fail, h64
from .lang import INTS

INT_BY_NAME = {t.name: t for t in INTS}
PRELUDE = """printf :: (fmt: str, n: i64) -> i32 extern;
bits32 :: (x: f32) -> u32 { (^u32.(rawptr.(^x)))^ }
bits64 :: (x: f64) -> u64 { (^u64.(rawptr.(^x)))^ }
S :: struct { f: T_FIELD };
"""

ESCAPES = {"0": 0, "a": 7, "b": 8, "n": 10, "f": 12, "r": 13, "t": 9, "v": 11, "e": 27, '"': 34, "'": 39, "\\": 92}

BOUNDARIES = sorted({0, 1, 2, 9, 10, 99, 100, 127, 128, 129, 254, 255, 256, 257, 32766, 32767, 32768, 65534, 65535, 65536,
                     2**31 - 2, 2**31 - 1, 2**31, 2**31 + 1, 2**32 - 2, 2**32 - 1, 2**32, 2**32 + 1, 3000000000,
                     2**63 - 2, 2**63 - 1, 2**63, 2**63 + 1, 2**64 - 2, 2**64 - 1, 2**64, 2**64 + 1, 10**19, 2 * 10**19, 10**20, 1000, 10**6, 10**9, 10**18})


def with_separators(digits, draw):
    out = digits[0]
    for ch in digits[1:]:
        if draw(st.integers(0, 3)) == 0:
            out += "_"
        out += ch
    if draw(st.integers(0, 5)) == 0:
        out += "_"
    return out


@st.composite
def int_spelling(draw):
    """(spelling, value) for a non-negative integer literal"""
    if draw(st.integers(0, 9)) < 7:
        v = BOUNDARIES[draw(st.integers(0, len(BOUNDARIES) - 1))]
    else:
        v = draw(st.integers(0, 2**64 + 1000))
    form = draw(st.sampled_from(["dec", "dec", "sep", "exp", "hex", "bin"]))
    if form == "hex":
        h = format(v, "x")
        h = "".join(c.upper() if draw(st.booleans()) else c for c in h)
        return "0x" + h, v
    if form == "bin":
        return "0b" + format(v, "b"), v
    if form == "exp":
        # m * 10^k exactly
        k = 0
        m = v
        while m % 10 == 0 and m > 0 and k < 19:
            m //= 10
            k += 1
        if draw(st.booleans()) or k == 0:
            kk = draw(st.integers(0, 3))
            return f"{m * 10**k}{draw(st.sampled_from(['e', 'E']))}{kk}", m * 10**k * 10**kk
        return f"{m}{draw(st.sampled_from(['e', 'E']))}{k}", v
    s = str(v)
    if form == "sep":
        s = with_separators(s, draw)
    return s, v


FLOAT_TEXTS = ["0.0", "1.0", "0.5", "1.5", "0.1", "3.14159", "16777217.0", "16777216.5", "0.000001", "1e10", "2.5e-3", "1.0e38", "123456789.125",
               "4294967296.0", "0.30000000000000004", "1.7976931348623157e308", "9007199254740993.0", "1_000.5", "3.4028235e38", "1.17549435e-38",
               "8388608.5", "8388609.5", "0.1e1", "5.0e-1", ".5", ".125e2"]


@st.composite
def use(draw):
    kind = draw(st.sampled_from(["ann", "ann", "ann", "ann_global", "unann", "unann_any", "unann_any", "unann_global", "arith_typed", "arith_untyped",
                                 "param", "field", "elem", "float_ctx", "float", "char", "char", "string", "ann_distinct", "ann_distinct", "ann_optional", "unann_paren_any", "unann_assign_any", "unann_array_any"]))
    if kind in ("ann", "ann_global", "arith_typed", "param", "field", "elem", "ann_distinct", "ann_optional"):
        sp, v = draw(int_spelling())
        t = draw(st.sampled_from(INTS))
        if draw(st.integers(0, 2)) == 0:
            # aim at the type's own boundary
            v = max(0, t.max - 1 + draw(st.integers(0, 2)))
            sp = str(v) if v < 2**64 or draw(st.booleans()) else "0x" + format(v, "x")
            if v >= 2**64:
                sp = str(v)
        return {"k": kind, "t": t.name, "sp": sp, "v": v}
    if kind in ("unann", "unann_any", "unann_global", "arith_untyped", "unann_paren_any", "unann_assign_any", "unann_array_any"):
        sp, v = draw(int_spelling())
        return {"k": kind, "sp": sp, "v": v}
    if kind == "float_ctx":
        sp, v = draw(int_spelling())
        return {"k": kind, "t": draw(st.sampled_from(["f32", "f64"])), "sp": sp, "v": v}
    if kind == "float":
        txt = draw(st.sampled_from(FLOAT_TEXTS)) if draw(st.integers(0, 2)) else f"{draw(st.integers(0, 10**9))}.{draw(st.integers(0, 10**9))}"
        return {"k": "float", "t": draw(st.sampled_from(["f32", "f64"])), "sp": txt}
    if kind == "char":
        which = draw(st.sampled_from(["plain", "escape", "bad-escape", "empty", "long", "non-u8"]))
        if which == "plain":
            c = chr(draw(st.integers(32, 126)))
            if c in "'\\":
                c = "x"
            return {"k": "char", "sp": c, "ok": True, "v": ord(c)}
        if which == "escape":
            e = draw(st.sampled_from(sorted(ESCAPES)))
            return {"k": "char", "sp": "\\" + e, "ok": True, "v": ESCAPES[e]}
        if which == "bad-escape":
            e = chr(draw(st.integers(33, 126)))
            if e in ESCAPES:
                e = "q"
            return {"k": "char", "sp": "\\" + e, "ok": False}
        if which == "empty":
            return {"k": "char", "sp": "", "ok": False}
        if which == "long":
            return {"k": "char", "sp": "ab", "ok": False}
        # a char is a u8: code points <= 255 denote that byte value, larger ones cannot be represented
        c = draw(st.sampled_from(["é", "ß", "ÿ", "€", "😀", "Ā"]))
        return {"k": "char", "sp": c, "ok": ord(c) <= 255, "v": ord(c)}
    # string
    parts = []
    ok = True
    val = bytearray()
    for _ in range(draw(st.integers(0, 6))):
        w = draw(st.integers(0, 9))
        if w < 5:
            c = chr(draw(st.integers(32, 126)))
            if c in '"\\':
                c = "y"
            parts.append(c)
            val += c.encode()
        elif w < 9:
            e = draw(st.sampled_from(sorted(set(ESCAPES) - {"0"})))
            parts.append("\\" + e)
            val.append(ESCAPES[e])
        else:
            e = chr(draw(st.integers(33, 126)))
            if e in ESCAPES:
                e = "q"
            parts.append("\\" + e)
            ok = False
    return {"k": "string", "sp": "".join(parts), "ok": ok, "v": list(val)}


def strategy(profile):
    return st.lists(use(), min_size=10, max_size=40)


# ------------------------------------------------------------------------------------------------
# oracle

def to_i64(v):
    v &= (1 << 64) - 1
    return v - (1 << 64) if v >> 63 else v


def nearest_float(frac, name):
    """correctly rounded (ties-to-even) float of an exact Fraction"""
    if name == "f64":
        return float(frac)  # Fraction.__float__ is correctly rounded
    F = np.float32
    with np.errstate(all="ignore"):
        return _nearest_f32(frac, F)


def _nearest_f32(frac, F):
    approx = F(float(frac))
    if not np.isfinite(approx):
        return float(approx)
    cands = {float(approx), float(np.nextafter(approx, F(np.inf))), float(np.nextafter(approx, F(-np.inf)))}
    best = None
    for c in cands:
        if not np.isfinite(c):
            continue
        d = abs(Fraction(c) - frac)
        bits = struct.unpack("<I", struct.pack("<f", c))[0]
        key = (d, bits & 1)
        if best is None or key < best[0]:
            best = (key, c)
    if frac > Fraction(float(np.finfo(np.float32).max)) + Fraction(2) ** 103:
        return float("inf")
    return best[1]


def parse_float_text(txt):
    t = txt.replace("_", "")
    m = re.fullmatch(r"(\d*)\.(\d+)(?:[eE]([-+]?\d+))?", t) or re.fullmatch(r"(\d+)()[eE]([-+]?\d+)", t)
    ip, fp, ex = m.group(1) or "0", m.group(2) or "", m.group(3)
    frac = Fraction(int(ip + fp), 10 ** len(fp)) if fp else Fraction(int(ip))
    if ex:
        frac *= Fraction(10) ** int(ex)
    return frac


def fbits(v, name):
    return struct.unpack("<I", struct.pack("<f", v))[0] if name == "f32" else struct.unpack("<Q", struct.pack("<d", v))[0]


def verdict(u):
    """('accept', expected stdout) | ('reject', None) | ('either', expected stdout if accepted)"""
    k = u["k"]
    if k in ("ann", "ann_global", "param", "field", "elem", "ann_distinct", "ann_optional"):
        t = INT_BY_NAME[u["t"]]
        if u["v"] >= 2**64 or u["v"] > t.max:
            return "reject", None
        return "accept", print_int(t, u["v"])
    if k == "arith_typed":
        t = INT_BY_NAME[u["t"]]
        if u["v"] >= 2**64 or u["v"] > t.max:
            return "reject", None
        return "accept", print_int(t, t.wrap(u["v"] + 1))
    if k in ("unann", "unann_global"):
        if u["v"] >= 2**64:
            return "reject", None
        return "either", f"{to_i64(u['v'])}\n"
    if k in ("unann_paren_any", "unann_assign_any", "unann_array_any"):
        # the same defaulting, with the literal in parentheses / assigned to an untyped variable later / inside an
        # anonymous array literal
        if u["v"] >= 2**64:
            return "reject", None
        return "either", f"{u['v']}\n"
    if k == "unann_any":
        # printed through `any` (core.println), so no later use can influence the literal's type:
        # this observes the defaulting rules alone
        if u["v"] >= 2**64:
            return "reject", None
        return "either", f"{u['v']}\n"
    if k == "arith_untyped":
        if u["v"] >= 2**64:
            return "reject", None
        if u["v"] + 1 >= 2**64:
            return "either", None
        return "either", f"{to_i64(u['v'] + 1)}\n"
    if k == "float_ctx":
        if u["v"] >= 2**64:
            return "reject", None
        return "accept", f"{to_i64(fbits(nearest_float(Fraction(u['v']), u['t']), u['t']))}\n"
    if k == "float":
        return "accept", f"{to_i64(fbits(nearest_float(parse_float_text(u['sp']), u['t']), u['t']))}\n"
    if k == "char":
        return ("accept", f"{u['v']}\n") if u["ok"] else ("reject", None)
    if k == "string":
        return ("accept", "".join(f"{b} " for b in u["v"]) + "\n") if u["ok"] else ("reject", None)
    raise KeyError(k)


def print_int(t, v):
    if t.bits == 128:
        return f"{to_i64(v >> 64)} {to_i64(v)}\n"
    return f"{to_i64(v)}\n"


# ------------------------------------------------------------------------------------------------
# program text: every use occupies exactly one source line

def pr(t, var):
    if t.bits == 128:
        return f'printf("%ld ", i64.({var} >> 64)); printf("%ld\\n", i64.(u64.({var})));'
    return f'printf("%ld\\n", i64.({var}));'


def use_lines(i, u):
    """(global line or None, main line, helper line or None)"""
    k = u["k"]
    sp = u["sp"]
    if k == "ann":
        t = INT_BY_NAME[u["t"]]
        return None, f"    {{ x : {t.name} = {sp}; {pr(t, 'x')} }};", None
    if k == "ann_distinct":
        # the integer type is reached through a distinct wrapper: the literal still has to fit
        t = INT_BY_NAME[u["t"]]
        return f"Dt{i} :: distinct {t.name};", f"    {{ x : Dt{i} = {sp}; y : {t.name} = {t.name}.(x); {pr(t, 'y')} }};", None
    if k == "ann_optional":
        t = INT_BY_NAME[u["t"]]
        return None, f"    {{ o : ?{t.name} = {sp}; x : {t.name} = #unwrap(o); {pr(t, 'x')} }};", None
    if k == "ann_global":
        t = INT_BY_NAME[u["t"]]
        return f"g{i} : {t.name} : {sp};", f"    {{ {pr(t, f'g{i}')} }};", None
    if k == "param":
        t = INT_BY_NAME[u["t"]]
        return None, f"    {{ x : {t.name} = id{i}({sp}); {pr(t, 'x')} }};", f"id{i} :: (a: {t.name}) -> {t.name} {{ a }}"
    if k == "field":
        t = INT_BY_NAME[u["t"]]
        return None, f"    {{ s :: struct {{ f: {t.name} }}.{{ f = {sp} }}; x : {t.name} = s.f; {pr(t, 'x')} }};", None
    if k == "elem":
        t = INT_BY_NAME[u["t"]]
        return None, f"    {{ a : [2]{t.name} = {t.name}.[{sp}, 0]; x : {t.name} = a[0]; {pr(t, 'x')} }};", None
    if k == "arith_typed":
        t = INT_BY_NAME[u["t"]]
        return None, f"    {{ a : {t.name} = 1; y : {t.name} = a + {sp}; {pr(t, 'y')} }};", None
    if k == "unann":
        cast = "i64.(x)" if u["v"] < 2**63 else "i64.(u64.(x))"
        return None, f'    {{ x := {sp}; printf("%ld\\n", {cast}); }};', None
    if k == "unann_paren_any":
        return None, f"    {{ x := ({sp}); core.println(x); }};", None
    if k == "unann_assign_any":
        return None, f"    {{ x := 100; x = {sp}; core.println(x); }};", None
    if k == "unann_array_any":
        return None, f"    {{ a := .[1, {sp}]; core.println(a[1]); }};", None
    if k == "unann_any":
        return None, f"    {{ x := {sp}; core.println(x); }};", None
    if k == "unann_global":
        cast = f"i64.(g{i})" if u["v"] < 2**63 else f"i64.(u64.(g{i}))"
        return f"g{i} :: {sp};", f'    {{ printf("%ld\\n", {cast}); }};', None
    if k == "arith_untyped":
        cast = "i64.(x)" if u["v"] + 1 < 2**63 else "i64.(u64.(x))"
        return None, f'    {{ x := {sp} + 1; printf("%ld\\n", {cast}); }};', None
    if k == "float_ctx" or k == "float":
        t = u["t"]
        return None, f'    {{ x : {t} = {sp}; printf("%ld\\n", i64.(bits{t[1:]}(x))); }};', None
    if k == "char":
        return None, f"    {{ c : char = '{sp}'; printf(\"%ld\\n\", i64.(c)); }};", None
    if k == "string":
        n = len(u["v"]) if u["ok"] else 0
        body = "".join(f'printf("%ld ", i64.(s[{j}])); ' for j in range(n))
        return None, f'    {{ s : [{n}]char = [{n}]char.("{sp}"); {body}printf("\\n", 0); }};' if n > 0 else f'    {{ s : str = "{sp}"; printf("\\n", 0); }};', None
    raise KeyError(k)


def build(uses, only=None):
    globs, helpers, main = [], [], []
    line_of = {}
    header = PRELUDE.replace("S :: struct { f: T_FIELD };\n", "")
    if any(u["k"].endswith("_any") and (only is None or i in only) for i, u in enumerate(uses)):
        header = 'core :: #mod("core");\n' + header
    for i, u in enumerate(uses):
        if only is not None and i not in only:
            continue
        g, m, h = use_lines(i, u)
        if g:
            globs.append((i, g))
        if h:
            helpers.append(h)
        main.append((i, m))
    src = header
    ln = src.count("\n") + 1
    for i, g in globs:
        line_of.setdefault(i, set()).add(ln)
        src += g + "\n"
        ln += 1
    for h in helpers:
        src += h + "\n"
        ln += 1
    src += "main :: () {\n"
    ln += 1
    for i, m in main:
        line_of.setdefault(i, set()).add(ln)
        src += m + "\n"
        ln += 1
    src += "}\n"
    return src, line_of


ERR_LINE = re.compile(r"--> at main\.capy:(\d+):(\d+)")


def error_lines(out):
    """line numbers of error diagnostics (the header line following each `error:` line)"""
    lines = out.split("\n")
    res = set()
    for i, l in enumerate(lines):
        if l.startswith("error"):
            for j in range(i + 1, min(i + 4, len(lines))):
                m = ERR_LINE.search(lines[j])
                if m:
                    res.add(int(m.group(1)))
                    break
    return res


def describe(u):
    return f"{u['k']} {u.get('t', '')} `{u['sp']}`" + (f" (= {u['v']})" if isinstance(u.get("v"), int) else "")


def shape(u):
    k = u["k"]
    if k in ("ann", "ann_global", "param", "field", "elem", "arith_typed"):
        return f"{k}:{u['t']}"
    if k in ("unann", "unann_any", "unann_global", "arith_untyped", "unann_paren_any", "unann_assign_any", "unann_array_any"):
        v = u["v"]
        band = "<=i32max" if v < 2**31 else "<=u32max" if v < 2**32 else "<=i64max" if v < 2**63 else "<=u64max" if v < 2**64 else ">u64max"
        return f"{k}:{band}"
    if k in ("float", "float_ctx"):
        return f"{k}:{u['t']}"
    return k


def nontrivial(u):
    k = u["k"]
    if k in ("char", "string"):
        return "\\" in u["sp"]
    if k == "float":
        return True
    v = u["v"]
    near = any(abs(v - b) <= 1 for b in (2**7, 2**8, 2**15, 2**16, 2**31, 2**32, 2**63, 2**64))
    return near or (k.startswith("unann") and v > 2**31 - 1) or any(c in u["sp"] for c in "_eExb")


def check(uses, stats, scratch, profile):
    verdicts = [verdict(u) for u in uses]
    # pass 1: the complete batch -> which lines carry errors
    src, line_of = build(uses)
    o = runner.run_case(scratch, {"main.capy": src}, run=False)
    if o.kind == "timeout":
        stats.inconclusive += 1
        return
    if o.kind == "crash":
        for i, u in enumerate(uses):
            s1, _ = build(uses, only={i})
            o1 = runner.run_case(scratch, {"main.capy": s1}, run=False)
            if o1.kind == "crash":
                raise Fail(o1.crash_key, f"compiler crashed on literal use `{describe(u)}`\n{o1.compiler_out[-1000:]}\n--- program ---\n{s1}", {"uses": [u]})
        raise Fail(o.crash_key, f"compiler crashed on the batch only\n{o.compiler_out[-1000:]}", {"uses": uses})
    errs = error_lines(o.compiler_out) if o.kind == "rejected" else set()
    accepted_idx = set()
    for i, (u, (v, exp)) in enumerate(zip(uses, verdicts)):
        stats.evaluations += 1
        if nontrivial(u):
            stats.nontrivial.add(h64(json.dumps(u, sort_keys=True)))
        stats.cls("kind." + u["k"])
        rejected = bool(line_of[i] & errs)
        if v == "accept" and rejected:
            s1, _ = build(uses, only={i})
            raise Fail(f"C09:rejected-but-fits:{shape(u)}", f"literal use `{describe(u)}` denotes a value that fits but is rejected\n--- one-use program ---\n{s1}", {"uses": [u]})
        if v == "reject" and not rejected:
            s1, _ = build(uses, only={i})
            raise Fail(f"C09:accepted-but-invalid:{shape(u)}", f"literal use `{describe(u)}` must be rejected but no error is reported on its line\n--- one-use program ---\n{s1}", {"uses": [u]})
        if v == "either":
            stats.cls("unannotated." + ("rejected" if rejected else "accepted"))
        if not rejected and exp is not None:
            accepted_idx.add(i)
    if not accepted_idx:
        return
    # pass 2: accepted uses only -> values
    src2, _ = build(uses, only=accepted_idx)
    o2 = runner.run_case(scratch, {"main.capy": src2})
    if o2.kind in ("timeout", "exe-timeout"):
        stats.inconclusive += 1
        return
    order = [i for i in range(len(uses)) if i in accepted_idx]
    if o2.kind != "ran" or o2.signal is not None:
        for i in order:
            s1, _ = build(uses, only={i})
            o1 = runner.run_case(scratch, {"main.capy": s1})
            if o1.kind != "ran" or o1.signal is not None:
                key = o1.crash_key if o1.kind == "crash" else f"C09:{o1.kind}:{shape(uses[i])}"
                raise Fail(key, f"literal use `{describe(uses[i])}` alone: {o1.brief()}\n{o1.compiler_out[-1000:]}\n--- program ---\n{s1}", {"uses": [uses[i]]})
        raise Fail("C09:batch-only-failure", f"accepted-only batch fails: {o2.brief()}\n{o2.compiler_out[-800:]}", {"uses": uses})
    got = o2.stdout.decode("utf-8", "replace").split("\n")
    gi = 0
    for i in order:
        exp = verdicts[i][1]
        g = got[gi] + "\n" if gi < len(got) else "<missing>"
        gi += 1
        if g != exp:
            if uses[i]["k"] == "string" and not uses[i]["v"]:
                continue
            s1, _ = build(uses, only={i})
            raise Fail(f"C09:wrong-value:{shape(uses[i])}", f"literal use `{describe(uses[i])}`: expected output {exp.strip()!r}, got {g.strip()!r}\n--- one-use program ---\n{s1}", {"uses": [uses[i]]})
    stats.sample({"uses": [describe(u) for u in uses[:8]]})


def replay_payload(payload, scratch):
    st_ = core.Stats()
    try:
        check(payload["uses"], st_, scratch, "replay")
    except Fail as f:
        return f.key
    return None


RULE = ("literal uses: integer spellings (decimal, `_` separators, e/E exponents, hex, binary) of values in [0, 2^64+1000] biased to every width boundary, "
        "annotated at each integer type (local, global, parameter, struct field, array element, arithmetic with a typed partner), unannotated (local, global, arithmetic), "
        "in float context; float literals (f32/f64 rounding boundaries); char literals with every escape and invalid forms; strings with valid and invalid escapes. "
        "Non-trivial = value within 1 of a width boundary, unannotated > i32::MAX, or spelling with separator/exponent/radix/escape; distinct by use.")


def run(ctx):
    if ctx.replay:
        scratch = core.make_scratch("C09", "replay")
        payload = json.load(open(ctx.replay))
        ctx.evaluations = 1
        k = replay_payload(payload, scratch)
        if k:
            ctx.violations[k] = ("replayed case still fails", payload)
        shutil.rmtree(scratch, ignore_errors=True)
        return ctx.finish(RULE, False, [])
    total = 3000 if ctx.thorough else 160
    infra = core.hypothesis_search(ctx, "pyv.c09", total)
    scratch = core.make_scratch("C09", "kf")
    rc = ctx.finish(RULE, False, [
        "an integer literal is non-negative; negative values are unary minus applied to a literal and are not part of the accept-iff-fits rule",
        "for unannotated literals the statement allows rejection; only 'accepted => value preserved' is asserted",
        "a spelling that denotes a value >= 2^64 is rejected (the lowering documents this lexical limit with OutOfRangeIntLiteral)",
    ], replayer=lambda p: replay_payload(p, scratch), min_nontrivial=50 if not ctx.collect_all() else 0)
    shutil.rmtree(scratch, ignore_errors=True)
    return 2 if infra and rc == 0 else rc
