"""Definitional reference interpreter for the program model of lang.py. Independent of /repo.

Values: int (Int/Char), bool, list (arrays), dict (structs), EnumV (enums and variant types),
None / Some (optionals; an optional pointer is None / Some(ref) too), Err / Ok (error unions),
Ref (pointers), SliceV, FnV (functions).
Aggregates are copied on every read out of a place (value semantics)."""
import copy

from .lang import *  # noqa


class Fault(Exception):
    """a runtime fault the language defines: message class + exit status 1"""
    def __init__(self, what):
        self.what = what


class StepLimit(Exception):
    pass


class EnumV:
    __slots__ = ("idx", "payload")

    def __init__(self, idx, payload):
        self.idx, self.payload = idx, payload

    def __eq__(self, o):
        return isinstance(o, EnumV) and (self.idx, self.payload) == (o.idx, o.payload)


class Some:
    __slots__ = ("v",)

    def __init__(self, v):
        self.v = v

    def __eq__(self, o):
        return isinstance(o, Some) and self.v == o.v


class Err:
    __slots__ = ("v",)

    def __init__(self, v):
        self.v = v


class Ok:
    __slots__ = ("v",)

    def __init__(self, v):
        self.v = v


def deep_eq(a, b):
    """structural equality of two values of the same type"""
    if isinstance(a, list):
        return len(a) == len(b) and all(deep_eq(x, y) for x, y in zip(a, b))
    if isinstance(a, dict):
        return all(deep_eq(a[k], b[k]) for k in a)
    if isinstance(a, EnumV):
        return isinstance(b, EnumV) and a.idx == b.idx and (a.payload is None or deep_eq(a.payload, b.payload))
    if isinstance(a, Some):
        return isinstance(b, Some) and deep_eq(a.v, b.v)
    if isinstance(a, (Err, Ok)):
        return type(a) is type(b) and deep_eq(a.v, b.v)
    if isinstance(a, SliceV):
        return a.len == b.len and all(deep_eq(a.ref.child(i).get(), b.ref.child(i).get()) for i in range(a.len))
    if a is None or b is None:
        return a is None and b is None
    return a == b


class Cell:
    __slots__ = ("v",)

    def __init__(self, v):
        self.v = v


class Ref:
    """pointer: a cell plus a path of keys into the value stored there"""
    __slots__ = ("cell", "path")

    def __init__(self, cell, path=()):
        self.cell, self.path = cell, tuple(path)

    def get(self):
        v = self.cell.v
        for k in self.path:
            v = step_into(v, k)
        return v

    def set(self, nv):
        if not self.path:
            self.cell.v = nv
            return
        v = self.cell.v
        for k in self.path[:-1]:
            v = step_into(v, k)
        k = self.path[-1]
        if isinstance(v, Some) and k == "some":
            v.v = nv
        elif isinstance(v, EnumV) and k == "payload":
            v.payload = nv
        else:
            v[k] = nv

    def child(self, k):
        return Ref(self.cell, self.path + (k,))


def step_into(v, k):
    if k == "some":
        return v.v
    if k == "payload":
        return v.payload
    return v[k]


class SliceV:
    __slots__ = ("ref", "len")

    def __init__(self, ref, n):
        self.ref, self.len = ref, n


class FnV:
    __slots__ = ("decl",)

    def __init__(self, decl):
        self.decl = decl


class _Break(Exception):
    def __init__(self, label, value):
        self.label, self.value = label, value


class _Continue(Exception):
    def __init__(self, label):
        self.label = label


class _Return(Exception):
    def __init__(self, value):
        self.value = value


def default_value(t):
    t0 = strip_distinct(t)
    if isinstance(t0, (Int, Char)):
        return 0
    if isinstance(t0, Bool):
        return False
    if isinstance(t0, Array):
        return [default_value(t0.elem) for _ in range(t0.n)]
    if isinstance(t0, Struct):
        return {n: default_value(ft) for n, ft in t0.fields}
    if isinstance(t0, Opt):
        return None
    raise TypeError(f"no default value for {t}")


def cp(v):
    if isinstance(v, (int, bool, Ref, FnV, SliceV)) or v is None:
        return v
    return copy.deepcopy(v) if not _has_ref(v) else _cp_keep_refs(v)


def _has_ref(v):
    if isinstance(v, (Ref, SliceV, FnV)):
        return True
    if isinstance(v, list):
        return any(_has_ref(x) for x in v)
    if isinstance(v, dict):
        return any(_has_ref(x) for x in v.values())
    if isinstance(v, EnumV):
        return _has_ref(v.payload)
    if isinstance(v, (Some, Err, Ok)):
        return _has_ref(v.v)
    return False


def _cp_keep_refs(v):
    if isinstance(v, (int, bool, Ref, FnV, SliceV)) or v is None:
        return v
    if isinstance(v, list):
        return [_cp_keep_refs(x) for x in v]
    if isinstance(v, dict):
        return {k: _cp_keep_refs(x) for k, x in v.items()}
    if isinstance(v, EnumV):
        return EnumV(v.idx, _cp_keep_refs(v.payload))
    if isinstance(v, Some):
        return Some(_cp_keep_refs(v.v))
    if isinstance(v, Err):
        return Err(_cp_keep_refs(v.v))
    if isinstance(v, Ok):
        return Ok(_cp_keep_refs(v.v))
    raise TypeError(type(v))


def to_i64(v):
    v &= (1 << 64) - 1
    return v - (1 << 64) if v >> 63 else v


class Interp:
    def __init__(self, program, max_steps=200000):
        self.p = program
        self.out = []
        self.steps = 0
        self.max_steps = max_steps
        self.stmts_executed = 0
        self.features = set()
        self.globals = {}
        for name, ty, lit in program.consts:
            self.globals[name] = Cell(lit.v)
        self.fns = {f.name: f for f in program.fns}

    # -------------------------------------------------------------------------------- output
    def emit(self, s):
        self.out.append(s)

    def print_scalar(self, ty, v):
        t = strip_distinct(ty)
        if isinstance(t, Bool):
            v = 1 if v else 0
        if isinstance(t, Int) and t.bits == 128:
            hi = to_i64(v >> 64)
            lo = to_i64(v)
            self.emit(f"{hi} {lo}\n")
        else:
            self.emit(f"{to_i64(v)}\n")

    # -------------------------------------------------------------------------------- running
    def run_main(self):
        """returns (stdout text, exit status, fault or None)"""
        main = self.fns["main"]
        try:
            r = self.call(main, [])
            t = strip_distinct(main.ret)
            status = 0 if isinstance(t, Void) else (r & 0xFF)
            return "".join(self.out), status, None
        except Fault as f:
            return "".join(self.out), 1, f.what

    def tick(self):
        self.steps += 1
        if self.steps > self.max_steps:
            raise StepLimit()

    def call(self, decl, args):
        self.tick()
        env = [{}]
        if getattr(decl, "variadic", False):
            k = len(decl.params) - 1
            backing = Cell([cp(a) for a in args[k:]])
            args = list(args[:k]) + [SliceV(Ref(backing), len(args) - k)]
        for (n, t), a in zip(decl.params, args):
            env[0][n] = Cell(cp(a))
        try:
            return self.exec_block(decl.body, env, new_scope=False, tail=decl.tail)
        except _Return as r:
            return r.value

    # -------------------------------------------------------------------------------- statements
    def exec_block(self, stmts, env, new_scope=True, tail=None):
        """executes statements (and then the tail expression) in a (new) scope with a defer stack;
        the reached defers run LIFO when the scope is left, however it is left"""
        if new_scope:
            env.append({})
        defers = []
        try:
            try:
                for s in stmts:
                    self.exec(s, env, defers)
                result = None if tail is None else cp(self.ev(tail, env))
            except (_Break, _Continue, _Return):
                for d in reversed(defers):
                    self.exec(d, env, [])
                raise
            for d in reversed(defers):
                self.exec(d, env, [])
            return result
        finally:
            if new_scope:
                env.pop()

    def lookup(self, name, env):
        for scope in reversed(env):
            if name in scope:
                return scope[name]
        if name in self.globals:
            return self.globals[name]
        raise KeyError(name)

    def exec(self, s, env, defers):
        self.tick()
        self.stmts_executed += 1
        k = type(s).__name__
        self.features.add("s:" + k)
        if k == "Let":
            v = default_value(s.ty) if s.init is None else cp(self.ev(s.init, env))
            env[-1][s.name] = Cell(v)
        elif k == "Assign":
            ref = self.place(s.target, env)
            v = self.ev(s.e, env)
            if s.op:
                cur = ref.get()
                v = self.binop(s.op, cur, v, s.target.ty, s.target.ty)
            ref.set(cp(v))
        elif k == "Print":
            self.print_scalar(s.e.ty, self.ev(s.e, env))
        elif k == "PutS":
            self.emit(s.text + "\n")
        elif k == "ExprS":
            self.ev(s.e, env)
        elif k == "If":
            if self.ev(s.c, env):
                self.exec_block(s.t, env)
            elif s.f is not None:
                self.exec_block(s.f, env)
        elif k == "While":
            while self.ev(s.c, env):
                try:
                    self.exec_block(s.body, env)
                except _Continue as c:
                    if c.label is not None and c.label != s.label:
                        raise
                except _Break as b:
                    if b.label is not None and b.label != s.label:
                        raise
                    break
        elif k == "Loop":
            while True:
                self.tick()
                try:
                    self.exec_block(s.body, env)
                except _Continue as c:
                    if c.label is not None and c.label != s.label:
                        raise
                except _Break as b:
                    if b.label is not None and b.label != s.label:
                        raise
                    break
        elif k == "Block":
            try:
                self.exec_block(s.body, env)
            except _Break as b:
                # an unlabeled `break` targets the innermost *labeled* block or loop; plain blocks are skipped
                if (b.label is None and s.label is None) or (b.label is not None and b.label != s.label):
                    raise
        elif k == "Break":
            raise _Break(s.label, None if s.value is None else cp(self.ev(s.value, env)))
        elif k == "Continue":
            raise _Continue(s.label)
        elif k == "Return":
            raise _Return(None if s.value is None else cp(self.ev(s.value, env)))
        elif k == "Defer":
            defers.append(s.stmt)
        elif k == "SwitchS":
            v = self.ev(s.e, env)
            body, bound = self.select_arm(s.e.ty, v, s.arms)
            env.append({s.arg: Cell(bound)})
            try:
                self.exec_block(body, env)
            finally:
                env.pop()
        else:
            raise TypeError(k)

    def select_arm(self, sty, v, arms):
        t = strip_distinct(sty)
        for pat, body in arms:
            if pat == "default":
                continue
            if isinstance(t, Enum):
                if isinstance(pat, VariantTy) and pat.idx == v.idx:
                    return body, EnumV(v.idx, cp(v.payload))
            elif isinstance(t, Opt):
                if pat == "nil" and v is None:
                    return body, None
                if pat != "nil" and v is not None:
                    return body, cp(v.v)
            elif isinstance(t, ErrU):
                if pat == t.err and isinstance(v, Err):
                    return body, cp(v.v)
                if pat == t.ok and isinstance(v, Ok):
                    return body, cp(v.v)
        for pat, body in arms:
            if pat == "default":
                return body, cp(v)
        raise AssertionError("non-exhaustive switch generated")

    # -------------------------------------------------------------------------------- places
    def place(self, e, env):
        """evaluates an lvalue expression to a Ref"""
        k = type(e).__name__
        if k == "Var":
            return Ref(self.lookup(e.name, env))
        if k == "Field":
            base_t = strip_distinct(e.e.ty)
            if isinstance(base_t, Ptr):
                r = self.ev(e.e, env)
                while isinstance(strip_distinct(base_t.inner), Ptr):
                    r = r.get()
                    base_t = strip_distinct(base_t.inner)
                return r.child(e.name)
            return self.place(e.e, env).child(e.name)
        if k == "Index":
            base_t = strip_distinct(e.e.ty)
            i = self.ev(e.i, env)
            if isinstance(base_t, Ptr):
                r = self.ev(e.e, env)
                inner = strip_distinct(base_t.inner)
                while isinstance(inner, Ptr):
                    r = r.get()
                    inner = strip_distinct(inner.inner)
                if isinstance(inner, Slice):
                    sl = r.get()
                    self.bounds(i, sl.len, "slice")
                    return sl.ref.child(i)
                self.bounds(i, inner.n, "array")
                return r.child(i)
            if isinstance(base_t, Slice):
                sl = self.ev(e.e, env)
                self.bounds(i, sl.len, "slice")
                return sl.ref.child(i)
            r = self.place(e.e, env)
            self.bounds(i, base_t.n, "array")
            return r.child(i)
        if k == "Deref":
            return self.ev(e.e, env)
        if k == "Coerce":
            return self.place(e.e, env)
        # a temporary
        return Ref(Cell(self.ev(e, env)))

    def bounds(self, i, n, what):
        if i < 0 or i >= n:
            raise Fault(f"{what} index out of bounds")

    # -------------------------------------------------------------------------------- expressions
    def ev(self, e, env):
        self.tick()
        k = type(e).__name__
        self.features.add("e:" + k)
        if k == "Lit":
            return e.v
        if k == "Var":
            return self.lookup(e.name, env).v
        if k == "FnRef":
            return FnV(self.fns[e.name])
        if k == "Bin":
            if e.op == "&&":
                return bool(self.ev(e.l, env)) and bool(self.ev(e.r, env))
            if e.op == "||":
                return bool(self.ev(e.l, env)) or bool(self.ev(e.r, env))
            a = self.ev(e.l, env)
            b = self.ev(e.r, env)
            return self.binop(e.op, a, b, e.l.ty, e.ty)
        if k == "Un":
            v = self.ev(e.e, env)
            t = strip_distinct(e.ty)
            if e.op == "-":
                return t.wrap(-v)
            if e.op == "+":
                return v
            if e.op == "!":
                return not v
            if e.op == "~":
                return t.wrap(~v)
            raise TypeError(e.op)
        if k == "Cast":
            return self.cast(self.ev(e.e, env), e.e.ty, e.ty)
        if k == "ArrLit":
            return [cp(self.ev(x, env)) for x in e.elems]
        if k == "StructLit":
            vals = {n: cp(self.ev(x, env)) for n, x in e.fields}
            return {n: vals[n] for n, _ in strip_distinct(e.ty).fields}
        if k in ("Field", "Index", "Deref"):
            return self.place(e, env).get()
        if k == "Call":
            args = [self.ev(a, env) for a in e.args]
            return self.call(self.fns[e.fn], args)
        if k == "CallPtr":
            f = self.ev(e.f, env)
            args = [self.ev(a, env) for a in e.args]
            return self.call(f.decl, args)
        if k == "IfE":
            return self.ev(e.t, env) if self.ev(e.c, env) else self.ev(e.f, env)
        if k == "VariantLit":
            return EnumV(e.ty.idx, None if e.payload is None else cp(self.ev(e.payload, env)))
        if k == "Nil":
            return None
        if k == "Coerce":
            return self.coerce(self.ev(e.e, env), e.e.ty, e.ty, e.e, env)
        if k == "Unwrap":
            v = self.ev(e.e, env)
            return self.unwrap(v, e.e.ty, e.variant)
        if k == "IsVariant":
            v = self.ev(e.e, env)
            return self.is_variant(v, e.e.ty, e.variant)
        if k == "Try":
            v = self.ev(e.e, env)
            t = strip_distinct(e.e.ty)
            if isinstance(t, Opt):
                if v is None:
                    raise _Return(None)
                return v.v
            if isinstance(v, Err):
                raise _Return(Err(cp(v.v)))
            return v.v
        if k == "SwitchE":
            v = self.ev(e.e, env)
            body, bound = self.select_arm(e.e.ty, v, e.arms)
            env.append({e.arg: Cell(bound)})
            try:
                return self.ev(body, env)
            finally:
                env.pop()
        if k == "AddrOf":
            return self.place(e.e, env)
        if k == "Len":
            t = strip_distinct(e.e.ty)
            while isinstance(t, Ptr):
                t = strip_distinct(t.inner)
            if isinstance(t, Array):
                return t.n
            v = self.ev(e.e, env)
            while isinstance(v, Ref):
                v = v.get()
            return v.len
        if k == "BlockE":
            try:
                return self.exec_block(e.stmts, env, new_scope=True, tail=e.tail)
            except _Break as b:
                if (b.label is None and e.label is None) or (b.label is not None and b.label != e.label):
                    raise
                return b.value
        if k == "Comptime":
            # a comptime block yields what the same code yields at run time
            return self.ev(e.e, env)
        if k == "LambdaE":
            return FnV(FnDecl("<lambda>", e.params, e.ret, e.body, e.tail))
        if k == "Raw" and getattr(e, "sem", None) is not None:
            # verbatim source with a stated meaning
            return self.ev(e.sem, env)
        raise TypeError(k)

    def binop(self, op, a, b, operand_ty, result_ty):
        t = strip_distinct(operand_ty)
        if op in ("==", "!=") and not isinstance(a, (int, bool)):
            return deep_eq(a, b) == (op == "==")
        if op in ("==", "!=", "<", "<=", ">", ">="):
            return {"==": a == b, "!=": a != b, "<": a < b, "<=": a <= b, ">": a > b, ">=": a >= b}[op]
        if isinstance(t, Bool):
            return {"&": a and b, "|": a or b, "~": a != b}[op]
        if op == "+":
            return t.wrap(a + b)
        if op == "-":
            return t.wrap(a - b)
        if op == "*":
            return t.wrap(a * b)
        if op == "/":
            q = abs(a) // abs(b)
            return t.wrap(q if (a < 0) == (b < 0) else -q)
        if op == "%":
            r = abs(a) % abs(b)
            return t.wrap(r if a >= 0 else -r)
        if op == "&":
            return t.wrap(a & b)
        if op == "|":
            return t.wrap(a | b)
        if op == "~":
            return t.wrap(a ^ b)
        if op == "<<":
            return t.wrap(a << b)
        if op == ">>":
            return t.wrap(a >> b)
        raise TypeError(op)

    def cast(self, v, src, dst):
        s, d = strip_distinct(src), strip_distinct(dst)
        if isinstance(s, VariantTy) and not isinstance(d, (VariantTy, Enum)):
            # a variant type is a distinct wrapper of its payload
            return self.cast(v.payload, s.payload, dst)
        if isinstance(d, Int):
            if isinstance(s, Bool):
                return 1 if v else 0
            return d.wrap(v)
        if isinstance(d, Char):
            if isinstance(s, Bool):
                return 1 if v else 0
            return v & 0xFF
        if isinstance(d, Bool):
            return bool(v)
        if isinstance(s, VariantTy) and not isinstance(d, (VariantTy, Enum)):
            return cp(v.payload)
        if isinstance(d, Struct) and isinstance(s, Struct):
            return {n: cp(v[n]) for n, _ in d.fields}
        if isinstance(d, Array) and isinstance(s, Array):
            return [self.cast(x, s.elem, d.elem) for x in v]
        if isinstance(d, Array) and isinstance(s, Slice):
            return [cp(v.ref.child(i).get()) for i in range(d.n)]
        return cp(v)

    def coerce(self, v, src, dst, src_expr=None, env=None):
        s, d = strip_distinct(src), strip_distinct(dst)
        if s == d:
            return v
        if isinstance(d, Enum) and isinstance(s, VariantTy):
            return v
        if isinstance(d, Opt):
            if isinstance(s, Opt):
                return v
            return Some(cp(self.coerce(v, src, d.inner)))
        if isinstance(d, ErrU):
            if s == strip_distinct(d.ok) or (isinstance(s, Int) and isinstance(strip_distinct(d.ok), Int)):
                return Ok(cp(v))
            if s == strip_distinct(d.err):
                return Err(cp(v))
            if isinstance(s, VariantTy) and s.enum == strip_distinct(d.err):
                return Err(v)
            if isinstance(s, VariantTy) and s.enum == strip_distinct(d.ok):
                return Ok(v)
            raise TypeError(f"coerce {src} -> {dst}")
        if isinstance(d, Slice) and isinstance(s, Array):
            # the slice refers to the array place itself
            ref = self.place(src_expr, env)
            return SliceV(ref, s.n)
        if isinstance(d, Int) and isinstance(s, Int):
            return d.wrap(v)
        if isinstance(d, Ptr) and isinstance(s, Ptr):
            return v
        if isinstance(d, Fn):
            return v
        raise TypeError(f"coerce {src} -> {dst}")

    def matches(self, v, sty, variant):
        t = strip_distinct(sty)
        if isinstance(t, Enum):
            return v.idx == variant.idx
        if isinstance(t, Opt):
            return (v is None) if variant == "nil" else (v is not None)
        if isinstance(t, ErrU):
            return isinstance(v, Err) if variant == t.err else isinstance(v, Ok)
        raise TypeError(sty)

    def is_variant(self, v, sty, variant):
        return self.matches(v, sty, variant)

    def unwrap(self, v, sty, variant):
        t = strip_distinct(sty)
        if variant is None:
            variant = t.inner
        if not self.matches(v, sty, variant):
            raise Fault("unwrap of a different variant")
        if isinstance(t, Enum):
            return EnumV(v.idx, cp(v.payload))
        if isinstance(t, Opt):
            return None if variant == "nil" else cp(v.v)
        return cp(v.v)
