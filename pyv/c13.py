"""C13 — distinct types, variants and named structs are nominal.

The full (provided type P, expected type E, context) matrix over distinct wrappers, variants of
two enums with identical payloads and structurally identical named structs, in annotations,
arguments, returns, assignments, binary operations, struct-literal members and array elements.
Enumerated completely (no randomness). Oracle: exactly the statement."""
import json, shutil

from . import core, cells
from .core import Fail

PRELUDE = cells.PRELUDE + """S1 :: struct { a: i32, b: u8 };
S2 :: struct { a: i32, b: u8 };
D1 :: distinct i32;
D2 :: distinct i32;
DD :: distinct D1;
DB :: distinct bool;
DS1 :: distinct S1;
DA1 :: distinct [2]u8;
DA2 :: distinct [2]u8;
DU :: distinct u32;
DUZ :: distinct usize;
DIZ :: distinct isize;
A :: enum { X: i32, Y };
B :: enum { X: i32, Y };
AS :: enum { P: S1, Q: S2 };
"""

# provided values: type -> (declaration of a strongly typed variable `p`, expression printing it as one line)
PROVIDERS = {
    "D1": ("p{i} : D1 = D1.(7);", "i64.(i32.({v}))", "7"),
    "DD": ("p{i} : DD = DD.(D1.(7));", "i64.(i32.(D1.({v})))", "7"),
    "DB": ("p{i} : DB = DB.(true);", "i64.(bool.({v}))", "1"),
    "S1": ("p{i} : S1 = S1.{{ a = 7, b = 1 }};", "i64.({v}.a)", "7"),
    "DS1": ("p{i} : DS1 = DS1.(S1.{{ a = 7, b = 1 }});", "i64.(S1.({v}).a)", "7"),
    "DA1": ("p{i} : DA1 = DA1.(u8.[7, 8]);", "i64.([2]u8.({v})[0])", "7"),
    "A.X": ("p{i} : A.X = A.X.(7);", "i64.(i32.({v}))", "7"),
    "A": ("p{i} : A = A.X.(7);", None, None),
    "AS.P": ("p{i} : AS.P = AS.P.(S1.{{ a = 7, b = 1 }});", "i64.(S1.({v}).a)", "7"),
}

# how to print a value of the *expected* type E after a successful conversion
PRINT_E = {
    "D1": "i64.(i32.({v}))", "D2": "i64.(i32.({v}))", "DD": "i64.(i32.(D1.({v})))", "DB": "i64.(bool.({v}))", "S1": "i64.({v}.a)", "S2": "i64.({v}.a)",
    "DS1": "i64.(S1.({v}).a)", "DA1": "i64.([2]u8.({v})[0])", "DA2": "i64.([2]u8.({v})[0])", "A.X": "i64.(i32.({v}))", "B.X": "i64.(i32.({v}))",
    "i32": "i64.({v})", "i64": "{v}", "bool": "i64.({v})", "[2]u8": "i64.({v}[0])", "AS.P": "i64.(S1.({v}).a)", "AS.Q": "i64.(S2.({v}).a)",
    "A": None, "B": None, "AS": None,
}

# (P, E) -> verdict by the statement
PAIRS = [
    ("D1", "D1", "accept"), ("D1", "D2", "reject"), ("D1", "i32", "reject"), ("D1", "i64", "reject"), ("D1", "DD", "reject"),
    ("DD", "D1", "reject"), ("DD", "DD", "accept"), ("DD", "i32", "reject"),
    ("DB", "DB", "accept"), ("DB", "bool", "reject"),
    ("S1", "S1", "accept"), ("S1", "S2", "reject"), ("S1", "DS1", "reject"),
    ("DS1", "DS1", "accept"), ("DS1", "S1", "reject"), ("DS1", "S2", "reject"),
    ("DA1", "DA1", "accept"), ("DA1", "DA2", "reject"), ("DA1", "[2]u8", "reject"),
    ("A.X", "A.X", "accept"), ("A.X", "A", "accept"), ("A.X", "B", "reject"), ("A.X", "B.X", "reject"), ("A.X", "i32", "reject"),
    ("A", "A", "accept"), ("A", "B", "reject"),
    ("AS.P", "AS", "accept"), ("AS.P", "AS.Q", "reject"), ("AS.P", "S1", "reject"), ("AS.P", "S2", "reject"),
]

# untyped literals: (literal text, E, printed value)
LITERALS = [("7", "D1", "7"), ("7", "DD", "7"), ("true", "DB", "1"), (".{ a = 7, b = 1 }", "S1", "7"), (".{ a = 7, b = 1 }", "DS1", "7"),
            (".[7, 8]", "DA1", "7"), ("7", "i32", "7")]

CONTEXTS = ["annotation", "argument", "return", "assignment", "member", "element"]

# initial value of type E for the assignment context
INIT_E = {"D1": "D1.(1)", "D2": "D2.(1)", "DD": "DD.(D1.(1))", "DB": "DB.(false)", "S1": "S1.{ a = 1, b = 1 }", "S2": "S2.{ a = 1, b = 1 }", "DS1": "DS1.(S1.{ a = 1, b = 1 })",
          "DA1": "DA1.(u8.[1, 1])", "DA2": "DA2.(u8.[1, 1])", "A.X": "A.X.(1)", "B.X": "B.X.(1)", "i32": "1", "i64": "1", "bool": "false", "[2]u8": "u8.[1, 1]",
          "A": "A.Y", "B": "B.Y", "AS": "AS.P.(S1.{ a = 1, b = 1 })", "AS.P": "AS.P.(S1.{ a = 1, b = 1 })", "AS.Q": "AS.Q.(S2.{ a = 1, b = 1 })"}


def context_cell(i, provided_decl, provided_expr, E, ctx, verdict, value, key, desc, spec):
    decls, body = [], []
    if provided_decl:
        body.append(provided_decl)
    pe = provided_expr
    pr = PRINT_E[E]
    res = f"r{i}"
    if ctx == "annotation":
        body.append(f"{res} : {E} = {pe};")
    elif ctx == "argument":
        decls.append(f"take{i} :: (x: {E}) -> {E} {{ x }}")
        body.append(f"{res} : {E} = take{i}({pe});")
    elif ctx == "return":
        if provided_decl:
            P = spec.get("P") or spec.get("U")
            decls.append(f"give{i} :: (x: {P}) -> {E} {{ x }}")
            body.append(f"{res} : {E} = give{i}({pe});")
        else:
            decls.append(f"give{i} :: () -> {E} {{ {pe} }}")
            body.append(f"{res} : {E} = give{i}();")
    elif ctx == "assignment":
        body.append(f"{res} : {E} = {INIT_E[E]};")
        body.append(f"{res} = {pe};")
    elif ctx == "member":
        decls.append(f"W{i} :: struct {{ m: {E}, pad: u8 }};")
        body.append(f"w{i} : W{i} = W{i}.{{ m = {pe}, pad = 0 }};")
        res = f"w{i}.m"
    elif ctx == "element":
        body.append(f"e{i} : [2]{E} = {E}.[{pe}, {pe}];")
        res = f"e{i}[1]"
    out = None
    if pr is not None and value is not None:
        body.append(f'printf("%ld\\n", {pr.format(v=res)});')
        out = value + "\n"
    elif verdict != "reject":
        body.append('puts("ok");')
        out = "ok\n"
    return {"decls": decls, "body": body, "expect": verdict, "out": out if verdict != "reject" else None, "key": key, "desc": desc, "spec": spec, "cls": spec["cls"]}


def make_cell(i, spec):
    k = spec["k"]
    if k == "pair":
        P, E, verdict, ctx = spec["P"], spec["E"], spec["verdict"], spec["ctx"]
        decl, _, val = PROVIDERS[P]
        return context_cell(i, decl.format(i=i), f"p{i}", E, ctx, verdict, val if PRINT_E[E] else None, f"C13:{ctx}:{P}->{E}", f"a value of {P} where {E} is expected ({ctx})", spec)
    if k == "literal":
        lit, E, val, ctx = spec["lit"], spec["E"], spec["val"], spec["ctx"]
        return context_cell(i, None, lit, E, ctx, "accept", val, f"C13:{ctx}:literal->{E}", f"the untyped literal `{lit}` where {E} is expected ({ctx})", spec)
    if k == "strong-underlying":
        # a strong value of the underlying type where the distinct is expected: not constrained by the statement
        E, U, init, val, ctx = spec["E"], spec["U"], spec["init"], spec["val"], spec["ctx"]
        return context_cell(i, f"p{i} : {U} = {init};", f"p{i}", E, ctx, "either", val, f"C13:{ctx}:strong-{U}->{E}", f"a strong {U} variable where {E} is expected ({ctx}; unconstrained)", spec)
    if k == "cast":
        src, dst, init, pr, val = spec["src"], spec["dst"], spec["init"], spec["pr"], spec["val"]
        body = [f"p{i} : {src} = {init};", f"r{i} : {dst} = {dst}.(p{i});", f'printf("%ld\\n", {pr.format(v=f"r{i}")});']
        return {"decls": [], "body": body, "expect": "accept", "out": val + "\n", "key": f"C13:cast:{src}->{dst}", "desc": f"explicit cast {dst}.({src} value)", "spec": spec, "cls": "cast"}
    if k == "binary":
        L, R, op, verdict, val = spec["L"], spec["R"], spec["op"], spec["verdict"], spec["val"]
        body = [f"l{i} : {L} = {spec['linit']};", f"q{i} : {R} = {spec['rinit']};"] if R != "literal" else [f"l{i} : {L} = {spec['linit']};"]
        rhs = f"q{i}" if R != "literal" else spec["rinit"]
        if op == "ifelse":
            # the two branches of an if must agree on one type
            body.append(f"c{i} : bool = true;")
            body.append(f"r{i} := if c{i} {{ l{i} }} else {{ {rhs} }};")
        elif op == "+=":
            body.append(f"l{i} += {rhs};")
            if spec["pr"]:
                body.append(f'printf("%ld\\n", {spec["pr"].format(v=f"l{i}")});')
        elif op in ("==", "!=", "<"):
            body.append(f"r{i} : bool = l{i} {op} {rhs};")
            body.append(f'printf("%ld\\n", i64.(r{i}));')
        else:
            body.append(f"r{i} := l{i} {op} {rhs};")
            if spec["pr"]:
                body.append(f'printf("%ld\\n", {spec["pr"].format(v=f"r{i}")});')
        return {"decls": [], "body": body, "expect": verdict, "out": (val + "\n") if verdict != "reject" and val is not None else None,
                "key": f"C13:binary:{L}{op}{R}", "desc": f"{L} {op} {R}", "spec": spec, "cls": "binary"}
    raise KeyError(k)


def all_specs(thorough):
    specs = []
    for P, E, verdict in PAIRS:
        for ctx in CONTEXTS:
            if ctx == "element" and E in ("A.X", "B.X", "AS.P", "AS.Q"):
                pass
            specs.append({"k": "pair", "P": P, "E": E, "verdict": verdict, "ctx": ctx, "cls": "pair." + verdict})
    for lit, E, val in LITERALS:
        for ctx in CONTEXTS:
            specs.append({"k": "literal", "lit": lit, "E": E, "val": val, "ctx": ctx, "cls": "literal"})
    for E, U, init, val in [("D1", "i32", "7", "7"), ("DB", "bool", "true", "1"), ("DS1", "S1", "S1.{ a = 7, b = 1 }", "7")]:
        for ctx in CONTEXTS:
            specs.append({"k": "strong-underlying", "E": E, "U": U, "init": init, "val": val, "ctx": ctx, "cls": "unconstrained"})
    casts = [("i32", "D1", "7", "i64.(i32.({v}))", "7"), ("D1", "i32", "D1.(7)", "i64.({v})", "7"), ("S1", "DS1", "S1.{ a = 7, b = 1 }", "i64.(S1.({v}).a)", "7"),
             ("DS1", "S1", "DS1.(S1.{ a = 7, b = 1 })", "i64.({v}.a)", "7"), ("bool", "DB", "true", "i64.(bool.({v}))", "1"), ("DB", "bool", "DB.(true)", "i64.({v})", "1"),
             ("[2]u8", "DA1", "u8.[7, 8]", "i64.([2]u8.({v})[0])", "7"), ("DA1", "[2]u8", "DA1.(u8.[7, 8])", "i64.({v}[0])", "7"),
             ("D1", "DD", "D1.(7)", "i64.(i32.(D1.({v})))", "7"), ("DD", "D1", "DD.(D1.(7))", "i64.(i32.({v}))", "7"),
             ("i32", "D1", "-2147483647", "i64.(i32.({v}))", "-2147483647")]
    for src, dst, init, pr, val in casts:
        specs.append({"k": "cast", "src": src, "dst": dst, "init": init, "pr": pr, "val": val, "cls": "cast"})
    bins = [("D1", "D1", "+", "accept", "D1.(7)", "D1.(3)", "i64.(i32.({v}))", "10"), ("D1", "D2", "+", "reject", "D1.(7)", "D2.(3)", "i64.(i32.({v}))", None),
            ("D1", "literal", "+", "accept", "D1.(7)", "3", "i64.(i32.({v}))", "10"),
            ("D1", "D2", "==", "reject", "D1.(7)", "D2.(7)", None, None), ("D1", "D1", "==", "accept", "D1.(7)", "D1.(7)", None, "1"),
            ("D1", "D1", "<", "accept", "D1.(-7)", "D1.(3)", None, "1"),
            ("S1", "S2", "==", "reject", "S1.{ a = 7, b = 1 }", "S2.{ a = 7, b = 1 }", None, None), ("S1", "S1", "==", "accept", "S1.{ a = 7, b = 1 }", "S1.{ a = 7, b = 1 }", None, "1"),
            ("DB", "bool", "&&", "either", "DB.(true)", "true", None, None), ("A.X", "B.X", "==", "reject", "A.X.(7)", "B.X.(7)", None, None)]
    # a distinct value and a strongly typed value of its underlying type never mix (both orders, signed and unsigned)
    for D, U in (("D1", "i32"), ("DU", "u32"), ("DUZ", "usize"), ("DIZ", "isize")):
        for op in ("+", "*", "==", "<"):
            bins.append((D, U, op, "reject", f"{D}.(7)", "3", None, None))
            bins.append((U, D, op, "reject", "3", f"{D}.(7)", None, None))
    # an enum value next to a variant of another enum (the common type is computed by `max`)
    bins.append(("A", "B.X", "==", "reject", "A.X.(7)", "B.X.(7)", None, None))
    bins.append(("B.X", "A", "==", "reject", "B.X.(7)", "A.X.(7)", None, None))
    bins.append(("A", "A.X", "==", "accept", "A.X.(7)", "A.X.(7)", None, "1"))
    bins.append(("A", "B.X", "ifelse", "reject", "A.X.(7)", "B.X.(7)", None, None))
    bins.append(("B.X", "A", "ifelse", "reject", "B.X.(7)", "A.X.(7)", None, None))
    bins.append(("S1", "S2", "ifelse", "reject", "S1.{ a = 7, b = 1 }", "S2.{ a = 7, b = 1 }", None, None))
    bins.append(("D1", "D2", "ifelse", "reject", "D1.(7)", "D2.(7)", None, None))
    bins.append(("D1", "i32", "ifelse", "reject", "D1.(7)", "3", None, None))
    bins.append(("DUZ", "usize", "+=", "reject", "DUZ.(7)", "3", None, None))
    bins.append(("usize", "DIZ", "+", "reject", "3", "DIZ.(7)", None, None))
    bins.append(("DU", "u32", "+=", "reject", "DU.(7)", "3", None, None))
    bins.append(("D1", "i32", "+=", "reject", "D1.(7)", "3", None, None))
    bins.append(("u32", "DU", "+=", "reject", "3", "DU.(7)", None, None))
    bins.append(("DU", "DU", "+=", "accept", "DU.(7)", "DU.(3)", "i64.(u32.({v}))", "10"))
    bins.append(("DU", "DU", "+", "accept", "DU.(7)", "DU.(3)", "i64.(u32.({v}))", "10"))
    bins.append(("DU", "literal", "*", "accept", "DU.(7)", "3", "i64.(u32.({v}))", "21"))
    for L, R, op, verdict, li, ri, pr, val in bins:
        specs.append({"k": "binary", "L": L, "R": R, "op": op, "verdict": verdict, "linit": li, "rinit": ri, "pr": pr, "val": val, "cls": "binary"})
    return specs


def check(specs, stats, scratch, profile):
    cs = [make_cell(i, s) for i, s in enumerate(specs)]
    cells.run_cells(cs, stats, scratch, "C13", prelude=PRELUDE, payload=lambda c: c["spec"],
                    nontrivial=lambda c: c["spec"]["k"] == "pair" and c["spec"]["verdict"] == "reject" or c["spec"]["k"] in ("cast", "binary", "literal"))
    stats.sample({"cells": [c["desc"] for c in cs[:5]]})


def replay_payload(payload, scratch):
    st_ = core.Stats()
    try:
        check(payload["cells"], st_, scratch, "replay")
    except Fail as f:
        return f.key
    return None


RULE = ("the complete matrix: 30 (provided, expected) type pairs over distinct wrappers (also distinct of distinct, of bool, of struct, of array), variants of two enums with "
        "identical payloads, structurally identical named structs x 6 contexts (annotation, argument, return, assignment, struct-literal member, array element), plus untyped "
        "literals x contexts, strong-underlying-value cells (unconstrained, recorded only), explicit casts in both directions with value preservation, and binary operations. "
        "Enumerated completely. Non-trivial = a pair the statement rejects, a cast, a binary operation or a literal cell; distinct by cell.")


def run(ctx):
    if ctx.replay:
        scratch = core.make_scratch("C13", "replay")
        payload = json.load(open(ctx.replay))
        ctx.evaluations = 1
        k = replay_payload(payload, scratch)
        if k:
            ctx.violations[k] = ("replayed case still fails", payload)
        shutil.rmtree(scratch, ignore_errors=True)
        return ctx.finish(RULE, False, [])
    specs = all_specs(ctx.thorough)
    # one rejection poisons nothing else (cells are independent), so batches can mix verdicts
    batches = [specs[i:i + 12] for i in range(0, len(specs), 12)]
    infra = core.run_batches(ctx, "pyv.c13", batches)
    scratch = core.make_scratch("C13", "kf")
    rc = ctx.finish(RULE, True, [
        "a strong value of the underlying type where a distinct is expected is not constrained by the statement (recorded as `either`)",
        "verdicts come from the statement alone: same type / variant-to-own-enum / untyped literal => accepted, different nominal type or own underlying type => rejected",
    ], replayer=lambda p: replay_payload(p, scratch), min_nontrivial=50 if not ctx.collect_all() else 0)
    shutil.rmtree(scratch, ignore_errors=True)
    return 2 if infra and rc == 0 else rc
