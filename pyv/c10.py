"""C10 — out-of-range indexing and wrong #unwrap always abort before touching memory.

A generated program performs a sequence of indexed reads/writes (runtime indices in [0, len+4],
arriving through a function call so nothing is folded) on arrays, arrays inside a guarded struct,
slices, pointers to arrays (1-2 levels, auto-deref), nested arrays, and #unwrap of enums,
optionals, nullable pointers and error unions with matching and non-matching variants.
A marker is printed before every access; guards next to the indexed storage are printed after
every in-range access. Oracle: a model of the steps; the first out-of-range access / wrong unwrap
ends the output right after its marker with the fault message and exit status 1.
Literal out-of-range indices on fixed-size arrays must be rejected at compile time."""
import json, shutil

from hypothesis import strategies as st

from . import runner, core
from .core import Fail, h64

ELEMS = {"u8": 255, "i32": 2**31 - 1, "u64": 2**63 - 1, "u16": 65535}
G1, G2 = 0x1122334455667788, 0x0FEDCBA987654321

PRELUDE = """printf :: (fmt: str, n: i64) -> i32 extern;
puts :: (s: str) -> i32 extern;
at :: (i: usize) -> usize { i }
P :: struct { x: i32, y: u8 };
E :: enum { A, B: i32, C: P };
Err :: enum { Bad, Worse: u8 };
"""


@st.composite
def container(draw, idx):
    kind = draw(st.sampled_from(["array", "struct", "slice", "ptr", "ptrptr", "nested", "structptr"]))
    elem = draw(st.sampled_from(sorted(ELEMS)))
    n = draw(st.integers(1, 8))
    m = draw(st.integers(1, 4)) if kind == "nested" else None
    return {"id": idx, "kind": kind, "elem": elem, "n": n, "m": m}


@st.composite
def step(draw, conts):
    if draw(st.integers(0, 9)) < 7 and conts:
        c = conts[draw(st.integers(0, len(conts) - 1))]
        hi = c["n"] + 4
        # bias towards the boundary
        i = draw(st.sampled_from([0, c["n"] - 1, c["n"], c["n"] + 1])) if draw(st.integers(0, 2)) == 0 else draw(st.integers(0, hi))
        # keep most accesses in range so that programs get past the first few steps
        if draw(st.integers(0, 9)) < 6:
            i = i % c["n"]
        elif draw(st.integers(0, 4)) == 0:
            # indices with the top bit set: a wrapped `pos - 1`, 2^63, 2^63 + small
            i = draw(st.sampled_from([(1 << 64) - 1, (1 << 64) - 2, (1 << 64) - c["n"], 1 << 63, (1 << 63) + c["n"] - 1, (1 << 63) + 1]))
        s = {"k": "idx", "c": c["id"], "write": draw(st.booleans()), "i": i, "v": draw(st.integers(0, ELEMS[c["elem"]]))}
        if c["kind"] == "nested":
            j = draw(st.integers(0, c["m"] + 2))
            if draw(st.integers(0, 9)) < 7:
                j = j % c["m"]
            s["j"] = j
        return s
    which = draw(st.sampled_from(["enum", "opt", "optptr", "erru"]))
    if which == "enum":
        return {"k": "unwrap", "of": "enum", "have": draw(st.sampled_from(["A", "B", "C"])), "want": draw(st.sampled_from(["A", "B", "C"])) if draw(st.integers(0, 3)) == 0 else None}
    if which == "opt":
        return {"k": "unwrap", "of": "opt", "have": draw(st.sampled_from(["some", "nil"])), "want": draw(st.sampled_from(["some", "some-typed", "nil"]))}
    if which == "optptr":
        return {"k": "unwrap", "of": "optptr", "have": draw(st.sampled_from(["some", "nil"])), "want": draw(st.sampled_from(["some", "nil"]))}
    return {"k": "unwrap", "of": "erru", "have": draw(st.sampled_from(["ok", "err"])), "want": draw(st.sampled_from(["ok", "err"]))}


@st.composite
def cases(draw):
    conts = [draw(container(i)) for i in range(draw(st.integers(1, 3)))]
    steps = [draw(step(conts)) for _ in range(draw(st.integers(1, 10)))]
    for s in steps:
        if s["k"] == "unwrap" and s["of"] == "enum" and s["want"] is None:
            s["want"] = s["have"]
    return {"conts": conts, "steps": steps}


def strategy(profile):
    return cases()


# ------------------------------------------------------------------------------------------------

def init_values(c):
    mx = ELEMS[c["elem"]]
    if c["kind"] == "nested":
        return [[(7 * i + j + 1) % (mx + 1) for j in range(c["m"])] for i in range(c["n"])]
    return [(7 * i + 1) % (mx + 1) for i in range(c["n"])]


def decl(c):
    """declaration lines for one container (with guards before and after by declaration order)"""
    i, t, n = c["id"], c["elem"], c["n"]
    vals = init_values(c)
    k = c["kind"]
    if k == "nested":
        inner = ", ".join(f"{t}.[" + ", ".join(f"{t}.({v})" for v in row) + "]" for row in vals)
        return [f"    ga{i} : u64 = {G1};", f"    m{i} : [{n}][{c['m']}]{t} = [{c['m']}]{t}.[{inner}];", f"    gb{i} : u64 = {G2};"]
    lit = f"{t}.[" + ", ".join(f"{t}.({v})" for v in vals) + "]"
    if k in ("struct", "structptr"):
        out = [f"    f{i} : F{i} = F{i}.{{ g1 = {G1}, a = {lit}, g2 = {G2} }};"]
        if k == "structptr":
            out.append(f"    fp{i} : ^mut F{i} = ^mut f{i};")
        return out
    out = [f"    ga{i} : u64 = {G1};", f"    a{i} : [{n}]{t} = {lit};", f"    gb{i} : u64 = {G2};"]
    if k == "slice":
        out.append(f"    s{i} : []{t} = a{i};")
    if k in ("ptr", "ptrptr"):
        out.append(f"    p{i} : ^mut [{n}]{t} = ^mut a{i};")
    if k == "ptrptr":
        out.append(f"    pp{i} : ^mut ^mut [{n}]{t} = ^mut p{i};")
    return out


def place(c, idx_src, j_src=None):
    i = c["id"]
    k = c["kind"]
    if k == "array":
        return f"a{i}[{idx_src}]"
    if k == "struct":
        return f"f{i}.a[{idx_src}]"
    if k == "structptr":
        return f"fp{i}.a[{idx_src}]"
    if k == "slice":
        return f"s{i}[{idx_src}]"
    if k == "ptr":
        return f"p{i}[{idx_src}]"
    if k == "ptrptr":
        return f"pp{i}[{idx_src}]"
    return f"m{i}[{idx_src}][{j_src}]"


def index_src(i):
    if i < (1 << 62):
        return f"at({i})"
    if i >= (1 << 64) - 64:
        return f"(at(0) - {(1 << 64) - i})"
    return f"((at(1) << 63) + {i - (1 << 63)})"


def guards_src(c):
    i = c["id"]
    if c["kind"] in ("struct", "structptr"):
        return f'printf("%ld ", i64.(f{i}.g1)); printf("%ld\\n", i64.(f{i}.g2));'
    return f'printf("%ld ", i64.(ga{i})); printf("%ld\\n", i64.(gb{i}));'


def build(case):
    conts = {c["id"]: c for c in case["conts"]}
    src = PRELUDE
    for c in case["conts"]:
        if c["kind"] in ("struct", "structptr"):
            src += f"F{c['id']} :: struct {{ g1: u64, a: [{c['n']}]{c['elem']}, g2: u64 }};\n"
    src += "mk_err :: (bad: bool) -> Err!i32 { if bad { e : Err = Err.Worse.(3); return e; } 41 }\n"
    src += "main :: () {\n    xv : i32 = 9;\n"
    for c in case["conts"]:
        src += "\n".join(decl(c)) + "\n"
    model = {c["id"]: init_values(c) for c in case["conts"]}
    out = ""
    fault = None
    for n, s in enumerate(case["steps"]):
        src += f'    puts("m{n}");\n'
        if fault is None:
            out += f"m{n}\n"
        if s["k"] == "idx":
            c = conts[s["c"]]
            pl = place(c, index_src(s["i"]), f"at({s.get('j', 0)})")
            oob = s["i"] >= c["n"] or (c["kind"] == "nested" and s["j"] >= c["m"])
            what = "slice" if c["kind"] == "slice" else "array"
            if s["write"]:
                src += f"    {pl} = {c['elem']}.({s['v']});\n"
                if fault is None and not oob:
                    if c["kind"] == "nested":
                        model[c["id"]][s["i"]][s["j"]] = s["v"]
                    else:
                        model[c["id"]][s["i"]] = s["v"]
            else:
                src += f'    printf("%ld\\n", i64.({pl}));\n'
                if fault is None and not oob:
                    v = model[c["id"]][s["i"]][s["j"]] if c["kind"] == "nested" else model[c["id"]][s["i"]]
                    out += f"{v}\n"
            if fault is None and oob:
                fault = f"{what} index out of bounds"
            # after the access: guards and the whole container
            src += f"    {guards_src(c)}\n"
            dump = ""
            if c["kind"] == "nested":
                for a in range(c["n"]):
                    for b in range(c["m"]):
                        dump += f'printf("%ld ", i64.(m{c["id"]}[{a}][{b}])); '
            else:
                base = {"array": f"a{c['id']}", "slice": f"a{c['id']}", "ptr": f"a{c['id']}", "ptrptr": f"a{c['id']}", "struct": f"f{c['id']}.a", "structptr": f"f{c['id']}.a"}[c["kind"]]
                for a in range(c["n"]):
                    dump += f'printf("%ld ", i64.({base}[{a}])); '
            src += f'    {dump}puts("");\n'
            if fault is None:
                out += f"{to_i64(G1)} {to_i64(G2)}\n"
                flat = [x for row in model[c["id"]] for x in row] if c["kind"] == "nested" else model[c["id"]]
                out += "".join(f"{v} " for v in flat) + "\n"
        else:
            of, have, want = s["of"], s["have"], s["want"]
            if of == "enum":
                init = {"A": "E.A", "B": "E.B.(5)", "C": "E.C.(P.{ x = 6, y = 7 })"}[have]
                src += f"    {{ v : E = {init}; u :: #unwrap(v, E.{want}); "
                src += {"A": 'puts("A");', "B": 'printf("%ld\\n", i64.(i32.(u)));', "C": 'printf("%ld\\n", i64.(u.x));'}[want] + " };\n"
                ok = have == want
                val = {"A": "A", "B": "5", "C": "6"}[want]
            elif of == "opt":
                init = "5" if have == "some" else "nil"
                if want == "nil":
                    src += f'    {{ v : ?i32 = {init}; u :: #unwrap(v, nil); puts("isnil"); }};\n'
                    ok, val = have == "nil", "isnil"
                else:
                    arg = "v" if want == "some" else "v, i32"
                    src += f'    {{ v : ?i32 = {init}; u : i32 = #unwrap({arg}); printf("%ld\\n", i64.(u)); }};\n'
                    ok, val = have == "some", "5"
            elif of == "optptr":
                init = "^xv" if have == "some" else "nil"
                if want == "nil":
                    src += f'    {{ v : ?^i32 = {init}; u :: #unwrap(v, nil); puts("isnil"); }};\n'
                    ok, val = have == "nil", "isnil"
                else:
                    src += f'    {{ v : ?^i32 = {init}; u : ^i32 = #unwrap(v); printf("%ld\\n", i64.(u^)); }};\n'
                    ok, val = have == "some", "9"
            else:
                call = "mk_err(false)" if have == "ok" else "mk_err(true)"
                if want == "ok":
                    src += f'    {{ v : Err!i32 = {call}; u : i32 = #unwrap(v, i32); printf("%ld\\n", i64.(u)); }};\n'
                    ok, val = have == "ok", "41"
                else:
                    src += f'    {{ v : Err!i32 = {call}; u : Err = #unwrap(v, Err); puts("iserr"); }};\n'
                    ok, val = have == "err", "iserr"
            if fault is None:
                if ok:
                    out += val + "\n"
                else:
                    fault = "unwrap"
    src += '    puts("end");\n}\n'
    if fault is None:
        out += "end\n"
    return src, out, fault


def to_i64(v):
    v &= (1 << 64) - 1
    return v - (1 << 64) if v >> 63 else v


def nontrivial(case):
    conts = {c["id"]: c for c in case["conts"]}
    for s in case["steps"]:
        if s["k"] == "idx":
            n = conts[s["c"]]["n"]
            if s["i"] in (n - 1, n, n + 1) or s["i"] >= (1 << 63):
                return True
        elif s["k"] == "unwrap":
            return True
    return False


def check(case, stats, scratch, profile):
    src, out, fault = build(case)
    o = runner.run_case(scratch, {"main.capy": src})
    stats.evaluations += 1
    if nontrivial(case):
        stats.nontrivial.add(h64(src))
    stats.cls("fault." + (fault or "none").replace(" ", "-"))
    for c in case["conts"]:
        stats.cls("container." + c["kind"])
    replay = {"case": case}
    if o.kind in ("timeout", "exe-timeout"):
        stats.inconclusive += 1
        return
    if o.kind == "crash":
        raise Fail(o.crash_key, f"compiler crashed\n{o.compiler_out[-1200:]}\n--- program ---\n{src}", replay)
    if o.kind == "rejected":
        raise Fail("C10:rejected:" + runner.normalise_msg(o.errors[0] if o.errors else "?")[:80], f"program rejected\n{o.compiler_out[-1500:]}\n--- program ---\n{src}", replay)
    if o.kind != "ran":
        raise Fail(f"C10:{o.kind}", f"{o.brief()}\n--- program ---\n{src}", replay)
    got = o.stdout.decode("utf-8", "replace")
    if fault is None:
        if o.signal is not None or got != out or o.status != 0:
            kinds = sorted({c["kind"] for c in case["conts"]})
            raise Fail("C10:in-range-behaviour", f"all accesses are in range: expected {out!r} status 0, got {got!r} status {o.status} signal {o.signal} (containers {kinds})\n--- program ---\n{src}", replay)
    else:
        rest = got[len(out):] if got.startswith(out) else None
        word = "index out of bounds" if "index" in fault else "unwrap"
        later_marker = rest is not None and any(f"m{n}\n" in rest for n in range(len(case["steps"]))) or (rest is not None and "end\n" in rest)
        # the statement fixes the wording only for index faults ('index out of bounds'); a wrong #unwrap "aborts the same way"
        wording_ok = (word in rest) if (rest is not None and "index" in fault) else True
        if rest is None or not wording_ok or o.status != 1 or o.signal is not None or later_marker:
            raise Fail(f"C10:fault-not-raised:{'index' if 'index' in fault else 'unwrap'}",
                       f"expected output {out!r} followed by a `{fault}` message and exit status 1 with nothing executed afterwards; got {got!r} status {o.status} signal {o.signal}\n--- program ---\n{src}", replay)
    stats.sample({"program": src[-900:], "expected": out, "fault": fault})


LITERAL_CASES = [
    ("a : [3]i32 = i32.[1, 2, 3];\n    x : i32 = a[3];", True),
    ("a : [3]i32 = i32.[1, 2, 3];\n    x : i32 = a[2];", False),
    ("a : [3]i32 = i32.[1, 2, 3];\n    a[7] = 1;", True),
    ("m : [2][2]u8 = [2]u8.[u8.[1, 2], u8.[3, 4]];\n    x : u8 = m[1][2];", True),
    ("m : [2][2]u8 = [2]u8.[u8.[1, 2], u8.[3, 4]];\n    x : u8 = m[2][0];", True),
    ("m : [2][2]u8 = [2]u8.[u8.[1, 2], u8.[3, 4]];\n    x : u8 = m[1][1];", False),
    ("S :: struct { a: [4]u16 };\n    s : S = S.{ a = u16.[1, 2, 3, 4] };\n    x : u16 = s.a[4];", True),
    ("S :: struct { a: [4]u16 };\n    s : S = S.{ a = u16.[1, 2, 3, 4] };\n    x : u16 = s.a[3];", False),
    ("a : [1]bool = bool.[true];\n    x : bool = a[1];", True),
    ("a : [5]i64 = i64.[1, 2, 3, 4, 5];\n    p : ^[5]i64 = ^a;\n    x : i64 = p[5];", True),
    ("a : [5]i64 = i64.[1, 2, 3, 4, 5];\n    p : ^[5]i64 = ^a;\n    x : i64 = p[4];", False),
]


def check_literals(ctx, scratch):
    for body, must_reject in LITERAL_CASES:
        src = "main :: () {\n    " + body + "\n}\n"
        o = runner.run_case(scratch, {"main.capy": src}, run=False)
        ctx.evaluations += 1
        ctx.nontrivial.add(h64(src))
        if o.kind == "crash":
            ctx.violations[o.crash_key] = (f"compiler crashed on\n{src}\n{o.compiler_out[-800:]}", {"literal": body, "must_reject": must_reject})
        elif must_reject and o.kind != "rejected":
            ctx.violations["C10:literal-index-accepted"] = (f"a literal index that is out of range for a fixed-size array must be rejected at compile time:\n{src}", {"literal": body, "must_reject": must_reject})
        elif not must_reject and o.kind == "rejected":
            ctx.violations["C10:literal-index-rejected"] = (f"an in-range literal index is rejected:\n{src}\n{o.compiler_out[-600:]}", {"literal": body, "must_reject": must_reject})


def replay_payload(payload, scratch):
    if "literal" in payload:
        src = "main :: () {\n    " + payload["literal"] + "\n}\n"
        o = runner.run_case(scratch, {"main.capy": src}, run=False)
        if o.kind == "crash":
            return o.crash_key
        if payload["must_reject"] and o.kind != "rejected":
            return "C10:literal-index-accepted"
        if not payload["must_reject"] and o.kind == "rejected":
            return "C10:literal-index-rejected"
        return None
    st_ = core.Stats()
    try:
        check(payload["case"], st_, scratch, "replay")
    except Fail as f:
        return f.key
    return None


RULE = ("1-3 containers (array, array inside a guarded struct (also through a pointer), slice, pointer / pointer-to-pointer to array, nested array; lengths 1-8, "
        "element types u8/u16/i32/u64) and 1-10 steps: indexed read or write with a runtime index in [0, len+4] (biased to len-1, len, len+1) or #unwrap of an "
        "enum / optional / nullable pointer / error union as a matching or non-matching variant; plus a fixed list of literal-index programs. "
        "Out-of-range indices also include values with the top bit set (2^64-1, 2^64-len, 2^63, 2^63+len-1: a wrapped `pos - 1`). Non-trivial = an index in {len-1, len, len+1}, an index >= 2^63, or an unwrap; distinct by program text.")


def run(ctx):
    if ctx.replay:
        scratch = core.make_scratch("C10", "replay")
        payload = json.load(open(ctx.replay))
        ctx.evaluations = 1
        k = replay_payload(payload, scratch)
        if k:
            ctx.violations[k] = ("replayed case still fails", payload)
        shutil.rmtree(scratch, ignore_errors=True)
        return ctx.finish(RULE, False, [])
    total = 16000 if ctx.thorough else 1280
    infra = core.hypothesis_search(ctx, "pyv.c10", total)
    scratch = core.make_scratch("C10", "kf")
    check_literals(ctx, scratch)
    rc = ctx.finish(RULE, False, [
        "the fault message must contain `index out of bounds` (resp. `unwrap`), the exit status must be 1 and no later marker may appear",
        "guards are placed next to the indexed storage by declaration order (struct fields / adjacent locals)",
    ], replayer=lambda p: replay_payload(p, scratch), min_nontrivial=50 if not ctx.collect_all() else 0)
    shutil.rmtree(scratch, ignore_errors=True)
    return 2 if infra and rc == 0 else rc
