"""C15 — only const values are used as types, sizes, discriminants and comptime args.

Matrix: expression kinds {literal, `::` local, `:=` local, global, imported global, comptime block,
comptime parameter, arithmetic, call, member, chains of references, `::` bound to a non-const}
x const positions {type annotation, array length, enum discriminant, comptime argument}
x declaration order (definition before / after the use). Oracle = the documented rule (README):
const <=> immutable binding whose value is a literal, a reference to a const, a comptime block or a
comptime parameter. Asserted: rule-non-const => rejected (with a diagnostic, no crash);
accepted => the printed array length / value equals what the expression denotes.
The converse (rule-const => accepted) is not in the statement: recorded as `either`."""
import json, shutil

from . import core, cells
from .core import Fail

OTHER = "N : usize : 3;\nD : u8 : 3;\nT :: i32;\n"

PRELUDE = cells.PRELUDE + """o :: #import("other.capy");
S :: struct { n: usize, d: u8 };
three :: () -> usize { 3 }
three8 :: () -> u8 { 3 }
gty :: () -> type { i32 }
cta :: (comptime n: usize) -> usize { n }
"""

# value kinds for integer positions: (name, const by the rule?, local setup lines, global decl lines, expression)
# {T} is the integer type the position needs (usize or u8), {i} the cell index


def value_kinds(T, i):
    call = "three()" if T == "usize" else "three8()"
    return [
        ("literal", True, [], [], "3"),
        ("imm-local-literal", True, [f"n{i} : {T} : 3;"], [], f"n{i}"),
        ("imm-local-untyped", True, [f"n{i} :: 3;"], [], f"n{i}"),
        ("mut-local", False, [f"n{i} : {T} = 3;"], [], f"n{i}"),
        ("global", True, [], [f"GN{i} : {T} : 3;"], f"GN{i}"),
        ("imported-global", True, [], [], "o.N" if T == "usize" else "o.D"),
        ("comptime-block", True, [], [], "comptime { 1 + 2 }"),
        ("imm-local-comptime", True, [f"n{i} : {T} : comptime {{ 1 + 2 }};"], [], f"n{i}"),
        ("arithmetic", False, [], [], "1 + 2"),
        ("imm-local-arithmetic", False, [f"n{i} : {T} : 1 + 2;"], [], f"n{i}"),
        ("call", False, [], [], call),
        ("imm-local-call", False, [f"n{i} : {T} : {call};"], [], f"n{i}"),
        ("member", False, [f"s{i} :: S.{{ n = 3, d = 3 }};"], [], f"s{i}.n" if T == "usize" else f"s{i}.d"),
        ("chain-2", True, [f"a{i} : {T} : 3;", f"n{i} :: a{i};"], [], f"n{i}"),
        ("chain-3", True, [f"a{i} : {T} : 3;", f"b{i} :: a{i};", f"n{i} :: b{i};"], [], f"n{i}"),
        ("chain-to-global", True, [f"n{i} :: GN{i};"], [f"GN{i} : {T} : 3;"], f"n{i}"),
        ("chain-to-mutable", False, [f"a{i} : {T} = 3;", f"n{i} :: a{i};"], [], f"n{i}"),
        ("chain-to-call", False, [f"a{i} : {T} : {call};", f"n{i} :: a{i};"], [], f"n{i}"),
        ("mut-local-uninitialised", False, [f"n{i} : {T};"], [], f"n{i}"),
        ("imported-global-via-mut-local", False, [f"om{i} := o;"], [], f"om{i}.N" if T == "usize" else f"om{i}.D"),
        ("imported-global-via-imm-local", True, [f"oi{i} :: o;"], [], f"oi{i}.N" if T == "usize" else f"oi{i}.D"),
        ("mut-local-reassigned", False, [f"n{i} : {T} = 1;", f"n{i} = 3;"], [], f"n{i}"),
    ]


def type_kinds(i):
    return [
        ("literal", True, [], [], "i32"),
        ("imm-local", True, [f"T{i} :: i32;"], [], f"T{i}"),
        ("mut-local", False, [f"T{i} := i32;"], [], f"T{i}"),
        ("global", True, [], [f"GT{i} :: i32;"], f"GT{i}"),
        ("imported-global", True, [], [], "o.T"),
        ("comptime-block", True, [], [], "comptime { i32 }"),
        ("imm-local-comptime", True, [f"T{i} :: comptime {{ i32 }};"], [], f"T{i}"),
        ("call", False, [], [], "gty()"),
        ("imm-local-call", False, [f"T{i} :: gty();"], [], f"T{i}"),
        ("chain-2", True, [f"A{i} :: i32;", f"T{i} :: A{i};"], [], f"T{i}"),
        ("chain-to-mutable", False, [f"A{i} := i32;", f"T{i} :: A{i};"], [], f"T{i}"),
        ("struct-literal-type", True, [f"T{i} :: struct {{ q: i32 }};"], [], f"T{i}"),
        ("mut-local-uninitialised", False, [f"T{i} : type;"], [], f"T{i}"),
        ("imported-global-via-mut-local", False, [f"om{i} := o;"], [], f"om{i}.T"),
        ("imported-global-via-imm-local", True, [f"oi{i} :: o;"], [], f"oi{i}.T"),
    ]


def all_specs(thorough):
    specs = []
    for pos in ("array-length", "comptime-arg", "discriminant"):
        T = "u8" if pos == "discriminant" else "usize"
        for kind in [k[0] for k in value_kinds(T, 0)]:
            for after in (False, True):
                specs.append({"pos": pos, "kind": kind, "after": after})
    for kind in [k[0] for k in type_kinds(0)]:
        for after in (False, True):
            specs.append({"pos": "annotation", "kind": kind, "after": after})
    # comptime parameter as the const value in each position (inside a generic function)
    for pos in ("array-length", "comptime-arg", "annotation"):
        specs.append({"pos": pos, "kind": "comptime-param", "after": False})
        # several comptime parameters mixed with run-time ones: each use must see its own argument
        for shape in range(4):
            specs.append({"pos": pos, "kind": "comptime-param-mixed", "after": False, "shape": shape})
    return specs


def make_cell(i, spec):
    pos, kind, after = spec["pos"], spec["kind"], spec["after"]
    decls, decls_after, body = [], [], []
    if kind == "comptime-param-mixed":
        shape = spec["shape"]
        # parameter lists: r = run-time parameter, a/b = comptime parameters; the body uses a (and b)
        params = [["r", "a", "b"], ["a", "r", "b"], ["b", "r", "a"], ["r", "b", "r2", "a"]][shape]
        vals = {"r": "1", "r2": "2"}
        if pos == "annotation":
            sig = ", ".join(f"comptime {p_}: type" if p_ in "ab" else f"{p_}: i32" for p_ in params)
            vals.update({"a": "[3]u8", "b": "[7]u8"})
            decls.append(f"gen{i} :: ({sig}) -> usize {{ va : a; vb : b; va.len * 10 + vb.len }}")
        elif pos == "array-length":
            sig = ", ".join(f"comptime {p_}: usize" if p_ in "ab" else f"{p_}: i32" for p_ in params)
            vals.update({"a": "3", "b": "7"})
            decls.append(f"gen{i} :: ({sig}) -> usize {{ va : [a]u8; vb : [b]u8; va.len * 10 + vb.len }}")
        else:
            sig = ", ".join(f"comptime {p_}: usize" if p_ in "ab" else f"{p_}: i32" for p_ in params)
            vals.update({"a": "3", "b": "7"})
            decls.append(f"gen{i} :: ({sig}) -> usize {{ cta(a) * 10 + cta(b) }}")
        body.append(f'printf("%ld\\n", i64.(gen{i}({", ".join(vals[p_] for p_ in params)})));')
        return {"decls": decls, "body": body, "expect": "either", "out": "37\n", "key": f"C15:{pos}:{kind}", "desc": f"comptime parameters ({', '.join(params)}) used as {pos}", "spec": spec, "cls": f"{pos}.const"}
    if kind == "comptime-param":
        if pos == "array-length":
            decls.append(f"gen{i} :: (comptime n: usize) -> usize {{ a : [n]u8; a.len }}")
            body.append(f'printf("%ld\\n", i64.(gen{i}(3)));')
        elif pos == "comptime-arg":
            decls.append(f"gen{i} :: (comptime n: usize) -> usize {{ cta(n) }}")
            body.append(f'printf("%ld\\n", i64.(gen{i}(3)));')
        else:
            decls.append(f"gen{i} :: (comptime T: type) -> usize {{ x : T = 3; usize.(x) }}")
            body.append(f'printf("%ld\\n", i64.(gen{i}(i32)));')
        return {"decls": decls, "body": body, "expect": "either", "out": "3\n", "key": f"C15:{pos}:{kind}", "desc": f"comptime parameter used as {pos}", "spec": spec, "cls": f"{pos}.const"}
    if pos == "annotation":
        name, const, setup, globs, expr = next(k for k in type_kinds(i) if k[0] == kind)
        body += setup
        if kind == "struct-literal-type":
            body.append(f"x{i} : {expr} = {expr}.{{ q = 3 }};")
            body.append(f'printf("%ld\\n", i64.(x{i}.q));')
        else:
            body.append(f"x{i} : {expr} = 3;")
            body.append(f'printf("%ld\\n", i64.(x{i}));')
    else:
        T = "u8" if pos == "discriminant" else "usize"
        name, const, setup, globs, expr = next(k for k in value_kinds(T, i) if k[0] == kind)
        body += setup
        if pos == "array-length":
            body.append(f"arr{i} : [{expr}]u16;")
            body.append(f'printf("%ld\\n", i64.(arr{i}.len));')
        elif pos == "comptime-arg":
            body.append(f'printf("%ld\\n", i64.(cta({expr})));')
        else:
            body.append(f"E{i} :: enum {{ A | {expr}, B | 9 }};")
            body.append(f"e{i} : E{i} = E{i}.A;")
            body.append(f'printf("%ld\\n", i64.((^u8.(rawptr.(^e{i})))^));')
    (decls_after if after else decls).extend(globs)
    if after and not globs:
        # order variation only matters for global definitions
        spec = dict(spec, after=False)
    return {"decls": decls, "decls_after": decls_after, "body": body, "expect": "either" if const else "reject", "out": "3\n" if const else None,
            "key": f"C15:{pos}:{kind}", "desc": f"{kind} `{expr}` used as {pos}" + (" (global defined after main)" if after and globs else ""), "spec": spec,
            "cls": f"{pos}.{'const' if const else 'non-const'}"}


def check(specs, stats, scratch, profile):
    cs = [make_cell(i, s) for i, s in enumerate(specs)]
    cells.run_cells(cs, stats, scratch, "C15", prelude=PRELUDE, payload=lambda c: c["spec"], extra_files={"other.capy": OTHER},
                    nontrivial=lambda c: "chain" in c["spec"]["kind"] or c["spec"]["kind"] not in ("literal",))
    stats.sample({"cells": [c["desc"] for c in cs[:5]]})


def replay_payload(payload, scratch):
    st_ = core.Stats()
    try:
        check(payload["cells"], st_, scratch, "replay")
    except Fail as f:
        return f.key
    return None


RULE = ("matrix: 19 value kinds (literal, :: / := local, global, imported global (const and mutable), comptime block, arithmetic, call, member, reference chains of length 2-3 "
        "ending in a const / a mutable / a call) x {array length, comptime argument, enum discriminant}, 12 type kinds x type annotation, comptime parameters in each position, "
        "x global definition before/after the use. Enumerated completely. Non-trivial = anything but a bare literal; distinct by cell.")


def run(ctx):
    if ctx.replay:
        scratch = core.make_scratch("C15", "replay")
        payload = json.load(open(ctx.replay))
        ctx.evaluations = 1
        k = replay_payload(payload, scratch)
        if k:
            ctx.violations[k] = ("replayed case still fails", payload)
        shutil.rmtree(scratch, ignore_errors=True)
        return ctx.finish(RULE, False, [])
    specs = all_specs(ctx.thorough)
    batches = [specs[i:i + 10] for i in range(0, len(specs), 10)]
    infra = core.run_batches(ctx, "pyv.c15", batches)
    scratch = core.make_scratch("C15", "kf")
    rc = ctx.finish(RULE, True, [
        "only the directions the statement gives are asserted: non-const => rejected; accepted => denoted value; const => accepted is recorded, not required",
        "the enum discriminant is read back as the tag byte (the first byte after the largest payload; the enums used here have no payload, so byte 0)",
    ], replayer=lambda p: replay_payload(p, scratch), min_nontrivial=50 if not ctx.collect_all() else 0)
    shutil.rmtree(scratch, ignore_errors=True)
    return 2 if infra and rc == 0 else rc
