"""Type-directed program generator (by construction, no rejection) on top of Hypothesis' `draw`.
Every random choice goes through `draw`, so Hypothesis can shrink and replay programs.
Alternative 0 of every choice is the simplest production (literal / nothing), which is what
shrinking moves towards."""
from hypothesis import strategies as st

from .lang import *  # noqa

FEATURES = ["wide-ints", "structs", "arrays", "enums", "optionals", "error-unions", "pointers", "slices", "distinct",
            "fn-pointers", "lambdas", "labeled-blocks", "loops", "switch", "defer", "try", "casts", "recursion",
            "globals", "implicit-widening", "faults", "nested-aggregates", "block-exprs", "aggregate-eq"]

DEFAULT_CFG = {
    "features": set(FEATURES) - {"faults"},
    "max_fns": 4,
    "max_stmts": 10,
    "max_depth": 3,
    "max_types": 4,
    "int_pool": None,  # default: all
    "avoid": set(),    # open known findings the generator steers away from
}


def contains_slice(t):
    t0 = strip_distinct(t)
    if isinstance(t0, Slice):
        return True
    if isinstance(t0, Array):
        return contains_slice(t0.elem)
    if isinstance(t0, Struct):
        return any(contains_slice(ft) for _, ft in t0.fields)
    if isinstance(t0, Enum):
        return any(pl is not None and contains_slice(pl) for _, pl, _ in t0.variants)
    if isinstance(t0, Opt):
        return contains_slice(t0.inner)
    if isinstance(t0, ErrU):
        return contains_slice(t0.err) or contains_slice(t0.ok)
    return False


def eq_comparable(t):
    """aggregates whose `==` is structural and pointer-free"""
    t0 = strip_distinct(t)
    if isinstance(t0, (Int, Bool, Char)):
        return True
    if isinstance(t0, (Array, Slice)):
        return eq_comparable(t0.elem)
    if isinstance(t0, Struct):
        return all(eq_comparable(ft) for _, ft in t0.fields)
    if isinstance(t0, Enum):
        return all(pl is None or eq_comparable(pl) for _, pl, _ in t0.variants)
    if isinstance(t0, Opt):
        return eq_comparable(t0.inner)
    if isinstance(t0, ErrU):
        return eq_comparable(t0.err) and eq_comparable(t0.ok)
    return False


class G:
    def __init__(self, draw, cfg=None):
        self.draw = draw
        self.cfg = dict(DEFAULT_CFG)
        if cfg:
            self.cfg.update(cfg)
        self.feat = self.cfg["features"]
        self.avoid = self.cfg["avoid"]
        self.p = Program()
        self.n = 0
        self.structs, self.enums, self.distincts = [], [], []
        self.fns = []          # FnDecl usable as callees (defined before the current one)
        self.pure = {}         # fn name -> bool
        self.used = set()      # features actually used

    # ------------------------------------------------------------------ primitive draws
    def int(self, lo, hi):
        return self.draw(st.integers(lo, hi))

    def pick(self, seq):
        seq = list(seq)
        return seq[self.int(0, len(seq) - 1)]

    def chance(self, num, den=10):
        """true with probability ~ num/den; shrinks to False"""
        return self.int(0, den - 1) >= den - num

    def fresh(self, prefix):
        self.n += 1
        return f"{prefix}{self.n}"

    def has(self, f):
        return f in self.feat

    # ------------------------------------------------------------------ types
    def int_ty(self):
        pool = self.cfg["int_pool"] or ([I32, U8, I64, U32, I8, U16, I16, U64, USIZE, ISIZE] + ([I128, U128] if self.has("wide-ints") else []))
        return self.pick(pool)

    def scalar_ty(self):
        k = self.int(0, 9)
        if k <= 6:
            return self.int_ty()
        if k <= 8:
            return BOOL
        return CHAR

    def value_ty(self, depth=2, allow_ptr=False):
        """a type values of which can be stored in locals / fields / passed around"""
        opts = ["scalar"]
        if self.has("structs") and self.structs:
            opts.append("struct")
        if self.has("arrays") and depth > 0:
            opts.append("array")
        if self.has("enums") and self.enums:
            opts.append("enum")
        if self.has("optionals") and depth > 0:
            opts.append("opt")
        if self.has("distinct") and self.distincts:
            opts.append("distinct")
        if self.has("error-unions") and self.enums and depth > 0:
            opts.append("erru")
        k = self.pick(opts) if self.chance(5) else "scalar"
        if k == "scalar":
            return self.scalar_ty()
        self.used.add(k)
        if k == "struct":
            return self.pick(self.structs)
        if k == "array":
            return Array(self.int(1, 4), self.value_ty(depth - 1 if self.has("nested-aggregates") else 0))
        if k == "enum":
            return self.pick(self.enums)
        if k == "opt":
            inner = self.value_ty(depth - 1 if self.has("nested-aggregates") else 0)
            if isinstance(inner, (Opt, ErrU)):
                inner = self.scalar_ty()
            return Opt(inner)
        if k == "distinct":
            return self.pick(self.distincts)
        if k == "erru":
            ok = self.value_ty(0)
            if isinstance(strip_distinct(ok), (Enum, Opt, ErrU)):
                ok = self.int_ty()
            return ErrU(self.pick(self.enums), ok)
        raise AssertionError(k)

    def make_types(self):
        n = self.int(0, self.cfg["max_types"])
        for _ in range(n):
            kinds = []
            if self.has("structs"):
                kinds.append("struct")
            if self.has("enums"):
                kinds.append("enum")
            if self.has("distinct"):
                kinds.append("distinct")
            if not kinds:
                return
            k = self.pick(kinds)
            if k == "struct":
                nf = self.int(1, 4)
                fields = [(f"m{i}", self.value_ty(1)) for i in range(nf)]
                t = Struct(self.fresh("S"), fields)
                self.structs.append(t)
            elif k == "enum":
                nv = self.int(1, 4)
                variants = []
                custom = self.chance(3)
                used_d = set()
                for i in range(nv):
                    payload = None
                    if self.chance(6):
                        payload = self.value_ty(1)
                        if isinstance(strip_distinct(payload), (Enum, Opt, ErrU)):
                            payload = self.scalar_ty()
                    d = None
                    if custom:
                        d = self.int(0, 200)
                        while d in used_d:
                            d += 1
                        used_d.add(d)
                    variants.append((f"V{i}", payload, d))
                t = Enum(self.fresh("E"), variants)
                self.enums.append(t)
            else:
                t = Distinct(self.fresh("D"), self.scalar_ty() if self.chance(7) or not self.structs else self.pick(self.structs))
                self.distincts.append(t)
            self.p.types.append(t)

    # ------------------------------------------------------------------ literals
    def int_lit(self, t):
        k = self.int(0, 9)
        if k <= 4:
            v = self.int(0, min(t.max, 9))
        elif k == 5:
            v = t.max
        elif k == 6:
            v = t.max - self.int(0, 2)
        elif k == 7 and t.signed:
            v = -self.int(1, min(-(t.min + 1), 1 << 62))
        elif k == 8:
            v = self.int(0, min(t.max, (1 << 62)))
        else:
            v = 1 << self.int(0, min(t.bits - 2, 62))
        return Lit(t, max(t.min + 1, min(v, min(t.max, (1 << 63) - 1))))

    def literal(self, t):
        t0 = strip_distinct(t)
        if isinstance(t0, Int):
            l = self.int_lit(t0)
            return Lit(t, l.v)
        if isinstance(t0, Bool):
            return Lit(t, self.int(0, 1) == 1)
        if isinstance(t0, Char):
            return Lit(t, self.int(0, 255))
        raise AssertionError(t)

    # ------------------------------------------------------------------ expressions
    def vars_of(self, env, t, mutable=None):
        return [v for v in env if v[1] == t and (mutable is None or v[2] == mutable)]

    def expr(self, t, env, depth, pure_only=True):
        """an expression of exactly type t"""
        t0 = strip_distinct(t)
        if depth <= 0:
            return self.leaf(t, env)
        prods = ["leaf", "leaf"]
        if self.vars_of(env, t):
            prods += ["var", "var"]
        if isinstance(t0, Int):
            prods += ["arith", "arith", "bit", "neg", "cast", "ife"]
        elif isinstance(t0, Bool):
            prods += ["cmp", "cmp", "logic", "not", "ife"]
            if self.has("aggregate-eq") and self.eq_candidates(env):
                prods += ["aggeq", "aggeq"]
        elif isinstance(t0, Char):
            prods += ["cast"]
        elif isinstance(t0, (Enum, Opt, ErrU)):
            # implicit conversions into sum types only happen where a value meets the expected type
            # directly; the branches of an if/switch must already agree, so no ife/switch here
            pass
        else:
            prods += ["ife"]
        if isinstance(t, Distinct):
            prods = ["leaf", "var" if self.vars_of(env, t) else "leaf", "dcast"]
        prods += self.access_prods(t, env)
        if any(f.ret == t and self.pure.get(f.name, False) and self.feasible(f, env) for f in self.fns):
            prods += ["call"]
        if self.has("switch") and depth >= 2 and self.switchable(env) and not isinstance(t0, (Enum, Opt, ErrU)):
            prods += ["switche", "switche", "switche"]
        k = self.pick(prods)
        if k == "leaf":
            return self.leaf(t, env)
        if k == "var":
            n, ty, _ = self.pick(self.vars_of(env, t))
            return Var(n, ty)
        if k == "arith":
            op = self.pick(["+", "-", "*", "/", "%"] if not ("divmod128" in self.avoid and t0.bits == 128) else ["+", "-", "*"])
            l = self.expr(t, env, depth - 1)
            if op in ("/", "%"):
                r = Lit(t, self.int(1, min(t0.max, 13)))
            else:
                r = self.expr(t, env, depth - 1)
            return Bin(op, l, r, t)
        if k == "bit":
            op = self.pick(["&", "|", "~", "<<", ">>"])
            l = self.expr(t, env, depth - 1)
            r = Lit(t, self.int(0, t0.bits - 1)) if op in ("<<", ">>") else self.expr(t, env, depth - 1)
            return Bin(op, l, r, t)
        if k == "neg":
            if t0.signed:
                return Un(self.pick(["-", "~"]), self.expr(t, env, depth - 1), t)
            return Un("~", self.expr(t, env, depth - 1), t)
        if k == "cast":
            self.used.add("casts")
            if isinstance(t0, Char):
                return Cast(t, self.expr(U8, env, depth - 1))
            src = self.pick([self.int_ty(), self.int_ty(), BOOL, CHAR])
            return Cast(t, self.expr(src, env, depth - 1))
        if k == "dcast":
            return Cast(t, self.expr(t.inner, env, depth - 1))
        if k == "ife":
            return IfE(self.expr(BOOL, env, depth - 1), self.expr(t, env, depth - 1), self.expr(t, env, depth - 1), t)
        if k == "cmp":
            it = self.int_ty()
            op = self.pick(["==", "!=", "<", "<=", ">", ">="])
            return Bin(op, self.expr(it, env, depth - 1), self.expr(it, env, depth - 1), BOOL)
        if k == "aggeq":
            # structural == / != on whole aggregates; half of the time both sides are the same variable or
            # differ in one place only
            self.used.add("aggregate-eq")
            n, ty = self.pick(self.eq_candidates(env))
            l = Var(n, ty)
            how = self.int(0, 2)
            if how == 1 and len(self.vars_of(env, ty)) > 1:
                r = Var(self.pick(self.vars_of(env, ty))[0], ty)
            elif how == 0 or contains_slice(ty):
                r = Var(n, ty)
            else:
                r = self.expr(ty, env, depth - 1)
            return Bin(self.pick(["==", "!="]), l, r, BOOL)
        if k == "logic":
            op = self.pick(["&&", "||", "&", "|"])
            return Bin(op, self.expr(BOOL, env, depth - 1), self.expr(BOOL, env, depth - 1), BOOL)
        if k == "not":
            return Un("!", self.expr(BOOL, env, depth - 1), BOOL)
        if k == "call":
            f = self.pick([f for f in self.fns if f.ret == t and self.pure.get(f.name, False) and self.feasible(f, env)])
            return self.call(f, env, depth - 1)
        if k == "switche":
            return self.switch_expr(t, env, depth - 1)
        if k == "blocke":
            return self.block_expr(t, env, depth - 1)
        if k.startswith("acc:"):
            return self.access(k, t, env, depth)
        raise AssertionError(k)

    def feasible(self, f, env):
        for _, pt in f.params:
            p0 = strip_distinct(pt)
            if isinstance(p0, Ptr):
                if not [v for v in env if v[1] == p0.inner and (v[2] or not p0.mut) and not v[0].startswith("it")]:
                    return False
            if isinstance(p0, Slice):
                if not [v for v in env if isinstance(strip_distinct(v[1]), Array) and strip_distinct(v[1]).elem == p0.elem]:
                    return False
            if isinstance(p0, Fn):
                if not [g for g in self.fns if g.ty == p0 and self.pure.get(g.name, False)]:
                    return False
        return True

    def call(self, f, env, depth):
        args = [self.arg(pt, env, depth) for _, pt in f.params]
        return Call(f.name, args, f.ret)

    def arg(self, pt, env, depth):
        p0 = strip_distinct(pt)
        if isinstance(p0, Ptr):
            cands = [v for v in env if v[1] == p0.inner and (v[2] or not p0.mut) and not v[0].startswith("it")]
            if cands:
                n, ty, _ = self.pick(cands)
                return AddrOf(p0.mut, Var(n, ty), pt)
            raise AssertionError("no pointer target")
        if isinstance(p0, Fn):
            cands = [f for f in self.fns if f.ty == p0 and self.pure.get(f.name, False)]
            return FnRef(self.pick(cands).name, pt)
        return self.expr(pt, env, depth)

    def leaf(self, t, env):
        t0 = strip_distinct(t)
        vs = self.vars_of(env, t)
        if vs and self.chance(5):
            n, ty, _ = self.pick(vs)
            return Var(n, ty)
        if is_scalar(t0):
            return self.literal(t)
        if isinstance(t, Distinct):
            return Cast(t, self.leaf(t.inner, env))
        if isinstance(t0, Array):
            return ArrLit(t0, [self.leaf(t0.elem, env) for _ in range(t0.n)])
        if isinstance(t0, Struct):
            fs = [(n, self.leaf(ft, env)) for n, ft in t0.fields]
            return StructLit(t0, fs)
        if isinstance(t0, Enum):
            idx = self.int(0, len(t0.variants) - 1)
            return Coerce(self.variant_lit(t0, idx, env), t0)
        if isinstance(t0, Opt):
            if self.chance(6):
                return Coerce(self.leaf(t0.inner, env), t0)
            return Nil(t0)
        if isinstance(t0, ErrU):
            if self.chance(6):
                return Coerce(self.leaf(t0.ok, env), t0)
            return Coerce(self.leaf(t0.err, env), t0)
        if isinstance(t0, Slice):
            cands = [v for v in env if isinstance(strip_distinct(v[1]), Array) and strip_distinct(v[1]).elem == t0.elem]
            n, ty, _ = self.pick(cands)
            return Coerce(Var(n, ty), t0)
        if isinstance(t0, Fn):
            cands = [f for f in self.fns if f.ty == t0]
            return FnRef(self.pick(cands).name, t0)
        raise AssertionError(f"no leaf for {t}")

    def variant_lit(self, en, idx, env):
        name, payload, _ = en.variants[idx]
        vt = VariantTy(en, idx)
        return VariantLit(vt, None if payload is None else self.leaf(payload, env))

    def eq_candidates(self, env):
        return [(n, ty) for n, ty, _ in env if not is_scalar(strip_distinct(ty)) and eq_comparable(ty)]

    def access_prods(self, t, env):
        out = []
        for n, ty, _ in env:
            t0 = strip_distinct(ty)
            if isinstance(t0, Struct) and any(ft == t for _, ft in t0.fields):
                out.append("acc:field")
            if isinstance(t0, Array) and t0.elem == t:
                out.append("acc:index")
            if isinstance(t0, Ptr) and t0.inner == t:
                out.append("acc:deref")
            if isinstance(t0, Ptr) and isinstance(strip_distinct(t0.inner), Struct) and any(ft == t for _, ft in strip_distinct(t0.inner).fields):
                out.append("acc:pfield")
            if isinstance(t0, Slice) and t0.elem == t:
                out.append("acc:sindex")
            if t == USIZE and isinstance(t0, (Slice, Array)):
                out.append("acc:len")
            if isinstance(t0, VariantTy) and t0.payload == t:
                out.append("acc:vpayload")
        return sorted(set(out))

    def access(self, k, t, env, depth):
        if k == "acc:field":
            c = [(n, ty) for n, ty, _ in env if isinstance(strip_distinct(ty), Struct) and any(ft == t for _, ft in strip_distinct(ty).fields)]
            n, ty = self.pick(c)
            f = self.pick([fn for fn, ft in strip_distinct(ty).fields if ft == t])
            return Field(Var(n, ty), f, t)
        if k == "acc:pfield":
            self.used.add("pointers")
            c = [(n, ty) for n, ty, _ in env if isinstance(strip_distinct(ty), Ptr) and isinstance(strip_distinct(strip_distinct(ty).inner), Struct)
                 and any(ft == t for _, ft in strip_distinct(strip_distinct(ty).inner).fields)]
            n, ty = self.pick(c)
            f = self.pick([fn for fn, ft in strip_distinct(strip_distinct(ty).inner).fields if ft == t])
            return Field(Var(n, ty), f, t)
        if k == "acc:index":
            c = [(n, ty) for n, ty, _ in env if isinstance(strip_distinct(ty), Array) and strip_distinct(ty).elem == t]
            n, ty = self.pick(c)
            return Index(Var(n, ty), self.index_expr(strip_distinct(ty).n, env, depth - 1), t)
        if k == "acc:sindex":
            self.used.add("slices")
            c = [(n, ty) for n, ty, _ in env if isinstance(strip_distinct(ty), Slice) and strip_distinct(ty).elem == t]
            n, ty = self.pick(c)
            # slices are always made from arrays of >= 1 element in this generator: index 0 is safe;
            # larger indexes only in the faults profile
            i = Lit(USIZE, 0) if not self.has("faults") else Lit(USIZE, self.int(0, 5))
            return Index(Var(n, ty), i, t)
        if k == "acc:deref":
            self.used.add("pointers")
            c = [(n, ty) for n, ty, _ in env if isinstance(strip_distinct(ty), Ptr) and strip_distinct(ty).inner == t]
            n, ty = self.pick(c)
            return Deref(Var(n, ty), t)
        if k == "acc:vpayload":
            c = [(n, ty) for n, ty, _ in env if isinstance(strip_distinct(ty), VariantTy) and strip_distinct(ty).payload == t]
            n, ty = self.pick(c)
            return Cast(t, Var(n, ty))
        if k == "acc:len":
            c = [(n, ty) for n, ty, _ in env if isinstance(strip_distinct(ty), (Slice, Array))]
            n, ty = self.pick(c)
            return Len(Var(n, ty), USIZE)
        raise AssertionError(k)

    def index_expr(self, n, env, depth):
        if self.has("faults") and self.chance(3):
            return Lit(USIZE, self.int(0, n + 3)) if self.chance(5) else Bin("%", self.expr(USIZE, env, max(depth, 0)), Lit(USIZE, n + self.int(1, 3)), USIZE)
        if self.chance(5) and depth > 0:
            return Bin("%", self.expr(USIZE, env, depth), Lit(USIZE, n), USIZE)
        return Lit(USIZE, self.int(0, n - 1))

    def switchable(self, env):
        return [v for v in env if isinstance(strip_distinct(v[1]), (Enum, Opt, ErrU))]

    def arms_for(self, sty):
        """patterns covering the sum type exactly once each, possibly with a default"""
        t = strip_distinct(sty)
        if isinstance(t, Enum):
            pats = [VariantTy(t, i) for i in range(len(t.variants))]
        elif isinstance(t, Opt):
            pats = [t.inner, "nil"]
            if "switch-array-arm" in self.avoid and isinstance(strip_distinct(t.inner), Array):
                return ["nil", "default"]
        else:
            pats = [t.ok, t.err]
        if len(pats) > 1 and self.chance(3):
            keep = self.int(1, len(pats) - 1)
            pats = pats[:keep] + ["default"]
        return pats

    def arm_binding_ty(self, sty, pat):
        t = strip_distinct(sty)
        if pat == "default":
            return sty
        if pat == "nil":
            return None
        if isinstance(pat, VariantTy):
            return pat
        return pat

    def arm_env(self, env, arg, sty, pat):
        bt = self.arm_binding_ty(sty, pat)
        if bt is None or (isinstance(bt, VariantTy) and bt.payload is None):
            return env
        return env + [(arg, bt, False)]

    def switch_expr(self, t, env, depth):
        self.used.add("switch")
        n, sty, _ = self.pick(self.switchable(env))
        arg = self.fresh("sw")
        arms = []
        pats = self.arms_for(sty)
        # the type of a value switch is the join of its arms: sometimes the named arms are of a narrower integer type
        # than the default arm (or than the last arm), so that the join has to widen them
        narrow = None
        if isinstance(t, Int) and self.has("implicit-widening") and len(pats) >= 2 and self.chance(7):
            cands = [s_ for s_ in INTS if s_.signed == t.signed and s_.bits < t.bits and s_.name not in ("isize", "usize") and t.name not in ("isize", "usize")]
            if cands:
                narrow = self.pick(cands)
                self.used.add("implicit-widening")
                self.used.add("switch-join-widening")
                if pats[-1] != "default":
                    pats = pats[:-1] + ["default"]
        for k, pat in enumerate(pats):
            at = narrow if (narrow is not None and k < len(pats) - 1) else t
            if narrow is not None and k == len(pats) - 1 and narrow.bits <= 32 and self.chance(6):
                # a value of the wide arm that does not fit the narrow type
                e = Lit(t, narrow.max + 1 + self.int(0, 200))
            else:
                e = self.expr(at, self.arm_env(env, arg, sty, pat), depth)
            arms.append((pat, e))
        return SwitchE(Var(n, sty), arg, arms, t)

    def block_expr(self, t, env, depth):
        self.used.add("block-exprs")
        label = self.fresh("b") if self.has("labeled-blocks") and self.chance(5) else None
        stmts = []
        env2 = list(env)
        for _ in range(self.int(0, 2)):
            ty = self.value_ty(1)
            name = self.fresh("t")
            stmts.append(Let(name, ty, False, self.expr(ty, env2, depth - 1)))
            env2.append((name, ty, False))
        if label and self.chance(5):
            stmts.append(If(self.expr(BOOL, env2, depth - 1), [Break(label, self.expr(t, env2, depth - 1))], None))
            self.used.add("labeled-blocks")
        return BlockE(label, stmts, self.expr(t, env2, depth - 1), t)

    # ------------------------------------------------------------------ statements
    def stmts(self, env, budget, ctx):
        """ctx: dict(ret=Ty, loops=[labels or None], blocks=[labels], in_main=bool, effects=bool)"""
        out = []
        env = list(env)
        # defers come first in their block: a defer placed after a statement that can leave the
        # block early may or may not run when it was not reached (C03 handles that case leniently)
        if self.has("defer") and ctx.get("defer_ok", True):
            for _ in range(self.int(0, 2)):
                self.used.add("defer")
                out.append(Defer(PutS(self.fresh("defer"))))
        n = self.int(0, budget)
        for _ in range(n):
            s = self.stmt(env, ctx, budget // 2)
            out.extend(s)
        return out, env

    def stmt(self, env, ctx, budget):
        depth = self.cfg["max_depth"]
        kinds = ["let", "let", "print", "print"]
        muts = [v for v in env if v[2] and not v[0].startswith("it")]
        if muts:
            kinds += ["assign", "assign", "compound"]
        if budget > 0:
            kinds += ["if"]
            if self.has("loops"):
                kinds += ["while", "loop"]
            if self.has("labeled-blocks"):
                kinds += ["block"]
            if self.has("switch") and self.switchable(env):
                kinds += ["switch"]
        if ctx["loops"]:
            kinds += ["break", "continue"]
        if ctx.get("blocks") and self.has("labeled-blocks"):
            kinds += ["breakblock"]
        if ctx.get("early_return", True) and self.chance(2):
            kinds += ["return"]
        if any(not self.pure.get(f.name, True) and self.feasible(f, env) for f in self.fns):
            kinds += ["callstmt"]
        if self.has("pointers") and muts:
            kinds += ["ptrwrite"]
        k = self.pick(kinds)
        if k == "let":
            ty = self.value_ty(2)
            name = self.fresh("v")
            mut = self.chance(6)
            if self.chance(1) and self.defaultable(ty):
                init = None
                mut = True
            else:
                init = self.rhs(ty, env, depth)
            env.append((name, ty, mut))
            return [Let(name, ty, mut, init)]
        if k == "print":
            return self.print_stmt(env, depth)
        if k == "assign":
            target, ty = self.lvalue(env, muts)
            return [Assign(target, None, self.rhs(ty, env, depth))]
        if k == "compound":
            ints = [(n, t) for n, t, m in muts if isinstance(t, Int)]
            if not ints:
                return self.print_stmt(env, depth)
            n, t = self.pick(ints)
            op = self.pick(["+", "-", "*", "&", "|", "~", "<<", ">>", "/", "%"] if not ("divmod128" in self.avoid and t.bits == 128) else ["+", "-", "*", "&", "|", "~", "<<", ">>"])
            if op in ("<<", ">>"):
                r = Lit(t, self.int(0, t.bits - 1))
            elif op in ("/", "%"):
                r = Lit(t, self.int(1, min(t.max, 11)))
            else:
                r = self.expr(t, env, depth - 1)
            return [Assign(Var(n, t), op, r)]
        if k == "if":
            c = self.expr(BOOL, env, depth)
            t, _ = self.stmts(env, budget, ctx)
            f = None
            if self.chance(5):
                f, _ = self.stmts(env, budget, ctx)
            return [If(c, t, f)]
        if k in ("while", "loop"):
            self.used.add("loops")
            it = self.fresh("it")
            bound = self.int(1, 5)
            label = self.fresh("l") if self.has("labeled-blocks") and self.chance(4) else None
            ctx2 = dict(ctx, loops=ctx["loops"] + [label], blocks=[])
            env2 = env + [(it, USIZE, False)]
            body, _ = self.stmts(env2, budget, ctx2)
            inc = Assign(Var(it, USIZE), "+", Lit(USIZE, 1))
            pre = Let(it, USIZE, True, Lit(USIZE, 0))
            if k == "while":
                return [pre, While(label, Bin("<", Var(it, USIZE), Lit(USIZE, bound), BOOL), [inc] + body)]
            return [pre, Loop(label, [inc, If(Bin(">", Var(it, USIZE), Lit(USIZE, bound), BOOL), [Break(None, None)], None)] + body)]
        if k == "block":
            self.used.add("labeled-blocks")
            label = self.fresh("b") if self.chance(7) else None
            ctx2 = dict(ctx, blocks=ctx.get("blocks", []) + ([label] if label else []))
            body, _ = self.stmts(env, budget, ctx2)
            return [Block(label, body)]
        if k == "switch":
            self.used.add("switch")
            n, sty, _ = self.pick(self.switchable(env))
            arg = self.fresh("sw")
            arms = []
            for pat in self.arms_for(sty):
                body, _ = self.stmts(self.arm_env(env, arg, sty, pat), max(budget, 1), ctx)
                arms.append((pat, body))
            return [SwitchS(Var(n, sty), arg, arms)]
        if k == "break":
            label = self.pick([l for l in ctx["loops"]])
            return [If(self.expr(BOOL, env, depth - 1), [Break(label, None)], None)]
        if k == "continue":
            label = self.pick([l for l in ctx["loops"]])
            return [If(self.expr(BOOL, env, depth - 1), [Continue(label)], None)]
        if k == "breakblock":
            return [If(self.expr(BOOL, env, depth - 1), [Break(self.pick(ctx["blocks"]), None)], None)]
        if k == "defer":
            self.used.add("defer")
            return [Defer(PutS(self.fresh("defer")))]
        if k == "return":
            rt = ctx["ret"]
            if isinstance(rt, Void):
                return [If(self.expr(BOOL, env, depth - 1), [Return(None)], None)]
            return [If(self.expr(BOOL, env, depth - 1), [Return(self.rhs(rt, env, depth - 1))], None)]
        if k == "callstmt":
            f = self.pick([f for f in self.fns if not self.pure.get(f.name, True) and self.feasible(f, env)])
            c = self.call(f, env, depth - 1)
            if isinstance(f.ret, Void):
                return [ExprS(c)]
            name = self.fresh("r")
            env.append((name, f.ret, False))
            return [Let(name, f.ret, False, c)]
        if k == "ptrwrite":
            self.used.add("pointers")
            n, t, _ = self.pick(muts)
            pn = self.fresh("p")
            return [Block(None, [Let(pn, Ptr(True, t), False, AddrOf(True, Var(n, t), Ptr(True, t))),
                                 Assign(Deref(Var(pn, Ptr(True, t)), t), None, self.rhs(t, env, depth - 1))])]
        raise AssertionError(k)

    def defaultable(self, t):
        t0 = strip_distinct(t)
        if is_scalar(t0):
            return True
        if isinstance(t0, Array):
            return self.defaultable(t0.elem)
        if isinstance(t0, Struct):
            return all(self.defaultable(ft) for _, ft in t0.fields)
        return False

    def rhs(self, ty, env, depth):
        """right-hand side: like expr, plus the implicit conversions the language allows here"""
        t0 = strip_distinct(ty)
        # (labeled) block expressions only as a whole right-hand side: inside parentheses the label's
        # `:` makes the parser's lambda heuristic take the parentheses for a parameter list
        if self.has("block-exprs") and depth >= 2 and self.chance(2) and not isinstance(t0, (Enum, Opt, ErrU)):
            return self.block_expr(ty, env, depth - 1)
        if isinstance(t0, Enum) and self.chance(6):
            idx = self.int(0, len(t0.variants) - 1)
            name, payload, _ = t0.variants[idx]
            vt = VariantTy(t0, idx)
            return Coerce(VariantLit(vt, None if payload is None else self.expr(payload, env, depth - 1)), ty)
        if isinstance(t0, Opt) and not isinstance(ty, Distinct) and self.chance(6):
            return Coerce(self.expr(t0.inner, env, depth - 1), ty)
        if isinstance(t0, ErrU) and not isinstance(ty, Distinct) and self.chance(6):
            if self.chance(6):
                return Coerce(self.expr(t0.ok, env, depth - 1), ty)
            return Coerce(self.expr(t0.err, env, depth - 1), ty)
        if isinstance(ty, Int) and self.has("implicit-widening") and self.chance(2):
            narrower = [s for s in INTS if s.signed == ty.signed and s.bits < ty.bits and s.name not in ("isize", "usize") and ty.name not in ("isize", "usize")]
            if narrower:
                self.used.add("implicit-widening")
                return Coerce(self.expr(self.pick(narrower), env, depth - 1), ty)
        return self.expr(ty, env, depth)

    def lvalue(self, env, muts):
        n, t, _ = self.pick(muts)
        t0 = strip_distinct(t)
        if isinstance(t0, Struct) and not isinstance(t, Distinct) and self.chance(5):
            f, ft = self.pick(t0.fields)
            return Field(Var(n, t), f, ft), ft
        if isinstance(t0, Array) and not isinstance(t, Distinct) and self.chance(5):
            return Index(Var(n, t), self.index_expr(t0.n, env, 1), t0.elem), t0.elem
        return Var(n, t), t

    def print_stmt(self, env, depth):
        """prints every scalar leaf of some visible value (or of a fresh expression)"""
        cands = [v for v in env]
        if cands and self.chance(7):
            n, t, _ = self.pick(cands)
            return self.print_value(Var(n, t), t)
        t = self.scalar_ty()
        name = self.fresh("pv")
        e = self.expr(t, env, depth)
        return [Block(None, [Let(name, t, False, e)] + self.print_value(Var(name, t), t))]

    def print_value(self, e, t, depth=0):
        """statements printing all scalar components of the value of pure expression e"""
        t0 = strip_distinct(t)
        if is_scalar(t0):
            return [Print(e if not isinstance(t, Distinct) else Cast(t0, e))]
        if depth > 3:
            return []
        if isinstance(t, Distinct):
            return self.print_value(Cast(t0, e), t0, depth)
        if isinstance(t0, Array):
            out = []
            for i in range(t0.n):
                out += self.print_value(Index(e, Lit(USIZE, i), t0.elem), t0.elem, depth + 1)
            return out
        if isinstance(t0, Struct):
            out = []
            for n, ft in t0.fields:
                out += self.print_value(Field(e, n, ft), ft, depth + 1)
            return out
        if isinstance(t0, (Enum, Opt, ErrU)):
            arg = self.fresh("pw")
            arms = []
            if isinstance(t0, Enum):
                for i, (vn, payload, _) in enumerate(t0.variants):
                    vt = VariantTy(t0, i)
                    body = [PutS(f"{t0.name}.{vn}")]
                    if payload is not None:
                        body += self.print_value(Cast(payload, Var(arg, vt)), payload, depth + 1)
                    arms.append((vt, body))
            elif isinstance(t0, Opt):
                if "switch-array-arm" in self.avoid and isinstance(strip_distinct(t0.inner), Array):
                    return [If(IsVariant(e, "nil", BOOL), [PutS("nil")],
                               [PutS("some")] + self.print_value(Unwrap(e, None, t0.inner), t0.inner, depth + 1))]
                arms.append((t0.inner, [PutS("some")] + self.print_value(Var(arg, t0.inner), t0.inner, depth + 1)))
                arms.append(("nil", [PutS("nil")]))
            else:
                arms.append((t0.ok, [PutS("ok")] + self.print_value(Var(arg, t0.ok), t0.ok, depth + 1)))
                arms.append((t0.err, [PutS("err")] + self.print_value(Var(arg, t0.err), t0.err, depth + 1)))
            return [SwitchS(e, arg, arms)]
        if isinstance(t0, Ptr):
            return self.print_value(Deref(e, t0.inner), t0.inner, depth + 1)
        if isinstance(t0, Slice):
            return [Print(Len(e, USIZE))]
        return []

    # ------------------------------------------------------------------ functions
    def make_fn(self, idx):
        name = f"f{idx}"
        np = self.int(0, 3)
        params = []
        effectful = self.chance(3)
        for i in range(np):
            k = self.int(0, 9)
            if k >= 8 and self.has("pointers"):
                inner = self.value_ty(1)
                mut = effectful and self.chance(5)
                params.append((f"a{i}", Ptr(mut, inner)))
                self.used.add("pointers")
            elif k == 7 and self.has("fn-pointers") and i == 0 and any(self.pure.get(f.name, False) and all(is_scalar(strip_distinct(t)) for _, t in f.params) for f in self.fns):
                f = self.pick([f for f in self.fns if self.pure.get(f.name, False) and all(is_scalar(strip_distinct(t)) for _, t in f.params)])
                params.append((f"a{i}", f.ty))
                self.used.add("fn-pointers")
            elif k == 6 and self.has("slices") and self.has("arrays"):
                params.append((f"a{i}", Slice(self.scalar_ty())))
                self.used.add("slices")
            else:
                params.append((f"a{i}", self.value_ty(2)))
        ret = self.value_ty(2) if self.chance(8) else VOID
        if isinstance(ret, Void):
            effectful = True
        env = [(n, t, False) for n, t in params] + [(n, t, False) for n, t, _ in self.p.consts]
        ctx = {"ret": ret, "loops": [], "blocks": [], "effects": effectful, "early_return": True,
               "defer_ok": effectful}
        saved = self.has
        if not effectful:
            # pure functions: no prints, no pointer writes, no defers (which print)
            body, env2 = self.pure_stmts(env, self.cfg["max_stmts"] // 2, ctx)
        else:
            body, env2 = self.stmts(env, self.cfg["max_stmts"] // 2, ctx)
        tail = None if isinstance(ret, Void) else self.rhs(ret, env2, self.cfg["max_depth"])
        f = FnDecl(name, params, ret, body, tail)
        self.pure[name] = not effectful
        self.fns.append(f)
        self.p.fns.append(f)
        return f

    def pure_stmts(self, env, budget, ctx):
        out = []
        env = list(env)
        for _ in range(self.int(0, budget)):
            k = self.int(0, 3)
            depth = self.cfg["max_depth"]
            if k <= 1:
                ty = self.value_ty(2)
                name = self.fresh("v")
                mut = self.chance(5)
                out.append(Let(name, ty, mut, self.rhs(ty, env, depth)))
                env.append((name, ty, mut))
            elif k == 2:
                muts = [v for v in env if v[2]]
                if muts:
                    target, ty = self.lvalue(env, muts)
                    out.append(Assign(target, None, self.rhs(ty, env, depth)))
            else:
                rt = ctx["ret"]
                if not isinstance(rt, Void):
                    out.append(If(self.expr(BOOL, env, depth - 1), [Return(self.rhs(rt, env, depth - 1))], None))
        return out, env

    def make_main(self):
        ret = self.pick([VOID, I32, U8, I64, USIZE, U32])
        env = [(n, t, False) for n, t, _ in self.p.consts]
        ctx = {"ret": ret, "loops": [], "blocks": [], "effects": True, "early_return": self.chance(3), "defer_ok": True, "in_main": True}
        body, env2 = self.stmts(env, self.cfg["max_stmts"], ctx)
        tail = None if isinstance(ret, Void) else self.expr(ret, env2, 2)
        f = FnDecl("main", [], ret, body, tail)
        self.p.fns.append(f)

    def make_consts(self):
        if not self.has("globals"):
            return
        for _ in range(self.int(0, 3)):
            # global initialisers must be plain literals (const by the documented rule)
            t = self.int_ty() if self.chance(8) else BOOL
            lit = self.literal(t)
            if isinstance(t, Int):
                lit = Lit(t, abs(lit.v))
            self.p.consts.append((self.fresh("g"), t, lit))
            self.used.add("globals")

    def program(self):
        self.make_types()
        self.make_consts()
        for i in range(self.int(0, self.cfg["max_fns"])):
            self.make_fn(i)
        self.make_main()
        return self.p


@st.composite
def programs(draw, cfg=None):
    g = G(draw, cfg)
    p = g.program()
    p.used = g.used
    return p
