"""C18 — runtime reflection and type values describe the code actually generated.

A generated family of 4-9 types (integers of every width, bool, char, arrays, slices, pointers,
optionals, named structs, enums with payloads and custom discriminants, distinct types, error unions,
aliases; depth <= 2). For every type the program prints what core.meta reports (size, stride,
alignment, kind-specific info: width/signedness, length and element type, pointer mutability, member
names/types/offsets, variants, discriminants, tag offset, non-zero flag), the same numbers computed
at compile time, and *address arithmetic on real storage* in the same program (distance of array
elements, distance of a field from its struct, the byte found at the reported tag offset after a
variant was stored). Then the pairwise `==` matrix of the type values and `type_of(any)`.
Oracle: an independent layout / identity model in Python (documented layout rules), and agreement of
reflection with the address arithmetic."""
import json, shutil

from hypothesis import strategies as st

from . import runner, core
from .core import Fail, h64

INTS = {"i8": (1, True), "u8": (1, False), "i16": (2, True), "u16": (2, False), "i32": (4, True), "u32": (4, False), "i64": (8, True), "u64": (8, False),
        "i128": (16, True), "u128": (16, False), "isize": (8, True), "usize": (8, False)}
SCALARS = list(INTS) + ["bool", "char", "f32", "f64"]


def scalar(name):
    return {"k": "scalar", "name": name}


@st.composite
def families(draw):
    n = draw(st.integers(4, 9))
    tys = []

    def comp(maxdepth=1):
        """a component type: a scalar or an earlier type of small depth"""
        cands = [i for i, t in enumerate(tys) if t["depth"] <= maxdepth and t["k"] not in ("slice",)]
        if cands and draw(st.integers(0, 2)) > 0:
            return {"k": "ref", "i": cands[draw(st.integers(0, len(cands) - 1))]}
        if draw(st.integers(0, 3)) == 0:
            # an anonymous type written in place (it is registered for reflection only when something reaches it)
            base = scalar(draw(st.sampled_from(SCALARS)))
            kind = draw(st.sampled_from(["opt", "ptr", "array"]))
            if kind == "opt":
                return {"k": "opt", "inner": base, "depth": 1}
            if kind == "ptr":
                return {"k": "ptr", "mut": draw(st.booleans()), "inner": base, "depth": 1}
            return {"k": "array", "n": draw(st.integers(1, 4)), "elem": base, "depth": 1}
        return scalar(draw(st.sampled_from(SCALARS)))

    def depth_of(c):
        return 0 if c["k"] == "scalar" else tys[c["i"]]["depth"] if c["k"] == "ref" else c["depth"]
    for i in range(n):
        kinds = ["scalar", "array", "ptr", "opt", "struct", "struct", "enum", "enum", "distinct", "slice"]
        if tys:
            kinds += ["alias"]
        if any(t["k"] == "enum" for t in tys):
            kinds += ["erru", "erru"]
        k = draw(st.sampled_from(kinds))
        if k == "scalar":
            t = {"k": "scalar", "name": draw(st.sampled_from(SCALARS)), "depth": 0}
        elif k == "array":
            c = comp()
            t = {"k": "array", "n": draw(st.integers(1, 5)), "elem": c, "depth": depth_of(c) + 1}
        elif k == "slice":
            c = comp()
            t = {"k": "slice", "elem": c, "depth": depth_of(c) + 1}
        elif k == "ptr":
            c = comp()
            t = {"k": "ptr", "mut": draw(st.booleans()), "inner": c, "depth": depth_of(c) + 1}
        elif k == "opt":
            c = comp()
            t = {"k": "opt", "inner": c, "depth": depth_of(c) + 1}
        elif k == "distinct":
            c = comp()
            t = {"k": "distinct", "inner": c, "depth": depth_of(c) + 1}
        elif k == "alias":
            j = draw(st.integers(0, len(tys) - 1))
            t = {"k": "alias", "of": j, "depth": tys[j]["depth"]}
        elif k == "struct":
            fs = [comp() for _ in range(draw(st.integers(1, 4)))]
            t = {"k": "struct", "fields": fs, "depth": max(depth_of(c) for c in fs) + 1}
        elif k == "enum":
            vs = []
            custom = draw(st.booleans())
            used = set()
            for v in range(draw(st.integers(1, 4))):
                payload = comp() if draw(st.integers(0, 2)) else None
                d = None
                if custom:
                    d = draw(st.integers(0, 200))
                    while d in used:
                        d += 1
                    used.add(d)
                vs.append({"payload": payload, "d": d})
            t = {"k": "enum", "variants": vs, "depth": max([depth_of(v["payload"]) for v in vs if v["payload"]] + [0]) + 1}
        else:
            es = [i for i, t0 in enumerate(tys) if t0["k"] == "enum"]
            c = comp()
            e_ = es[draw(st.integers(0, len(es) - 1))]
            if c["k"] == "ref":
                j = c["i"]
                while tys[j]["k"] == "alias":
                    j = tys[j]["of"]
                if j == e_ or tys[j]["k"] in ("distinct", "enum", "opt", "erru"):
                    # the payload must not be too similar to the error type (the compiler insists): keep it simple
                    c = scalar(draw(st.sampled_from(SCALARS)))
            t = {"k": "erru", "err": e_, "ok": c, "depth": max(depth_of(c), 1) + 1}
        tys.append(t)
    return {"types": tys, "order": list(draw(st.permutations(list(range(n)))))}


def strategy(profile):
    return families()


# ------------------------------------------------------------------------------------------------
# the model

class Model:
    def __init__(self, tys):
        self.tys = tys

    def res(self, c):
        """resolve a component / alias to a concrete type dict"""
        while True:
            if c["k"] == "ref":
                c = self.tys[c["i"]]
            elif c["k"] == "alias":
                c = self.tys[c["of"]]
            else:
                return c

    def index_of(self, c):
        """index of the declaration a component finally denotes (None for inline scalars)"""
        if c["k"] == "ref":
            i = c["i"]
        elif "of" in c and c["k"] == "alias":
            i = c["of"]
        else:
            return None
        while self.tys[i]["k"] == "alias":
            i = self.tys[i]["of"]
        return i

    def ident(self, c):
        """identity of the denoted type: nominal for struct / enum / distinct, structural otherwise"""
        if c["k"] in ("ref", "alias"):
            i = c["i"] if c["k"] == "ref" else c["of"]
            while self.tys[i]["k"] == "alias":
                i = self.tys[i]["of"]
            t = self.tys[i]
            if t["k"] in ("struct", "enum", "distinct"):
                return ("nominal", i)
            return self.ident_of_decl(t)
        return self.ident_of_decl(c)

    def ident_of_decl(self, t):
        k = t["k"]
        if k == "scalar":
            return ("scalar", t["name"])
        if k == "array":
            return ("array", t["n"], self.ident(t["elem"]))
        if k == "slice":
            return ("slice", self.ident(t["elem"]))
        if k == "ptr":
            return ("ptr", t["mut"], self.ident(t["inner"]))
        if k == "opt":
            return ("opt", self.ident(t["inner"]))
        if k == "erru":
            return ("erru", ("nominal", self.index_of({"k": "ref", "i": t["err"]})), self.ident(t["ok"]))
        if k == "alias":
            return self.ident(t)
        raise KeyError(k)

    def decl_ident(self, i):
        t = self.tys[i]
        if t["k"] in ("struct", "enum", "distinct"):
            return ("nominal", i)
        return self.ident({"k": "ref", "i": i})

    def layout(self, c):
        """(size, align) by the documented rules"""
        t = self.res(c)
        k = t["k"]
        if k == "scalar":
            n = t["name"]
            if n in INTS:
                s = INTS[n][0]
                return s, min(s, 8)
            return {"bool": (1, 1), "char": (1, 1), "f32": (4, 4), "f64": (8, 8)}[n]
        if k == "array":
            s, a = self.layout(t["elem"])
            return t["n"] * self.stride(t["elem"]), a
        if k == "slice":
            return 16, 8
        if k == "ptr":
            return 8, 8
        if k == "distinct":
            return self.layout(t["inner"])
        if k == "struct":
            off, al = 0, 1
            for f in t["fields"]:
                s, a = self.layout(f)
                off = (off + a - 1) // a * a + s
                al = max(al, a)
            return off, al
        if k == "enum":
            ps = [self.layout(v["payload"]) for v in t["variants"] if v["payload"]]
            ms = max([s for s, _ in ps] + [0])
            return ms + 1, max([a for _, a in ps] + [1])
        if k == "opt":
            if self.is_ptr(t["inner"]):
                return 8, 8
            s, a = self.layout(t["inner"])
            return s + 1, a
        if k == "erru":
            s1, a1 = self.layout({"k": "ref", "i": t["err"]})
            s2, a2 = self.layout(t["ok"])
            return max(s1, s2) + 1, max(a1, a2)
        raise KeyError(k)

    def is_ptr(self, c):
        t = self.res(c)
        while t["k"] == "distinct":
            t = self.res(t["inner"])
        return t["k"] == "ptr"

    def stride(self, c):
        s, a = self.layout(c)
        return (s + a - 1) // a * a

    def offsets(self, t):
        off, out = 0, []
        for f in t["fields"]:
            s, a = self.layout(f)
            off = (off + a - 1) // a * a
            out.append(off)
            off += s
        return out

    def tag_offset(self, t):
        if t["k"] == "enum":
            return max([self.layout(v["payload"])[0] for v in t["variants"] if v["payload"]] + [0])
        if t["k"] == "opt":
            return self.layout(t["inner"])[0]
        return max(self.layout({"k": "ref", "i": t["err"]})[0], self.layout(t["ok"])[0])

    def discriminants(self, t):
        out, used, nxt = [], {v["d"] for v in t["variants"] if v["d"] is not None}, 0
        for v in t["variants"]:
            if v["d"] is not None:
                out.append(v["d"])
            else:
                while nxt in used:
                    nxt += 1
                out.append(nxt)
                used.add(nxt)
        return out


def src_of(c):
    if c["k"] == "scalar":
        return c["name"]
    if c["k"] == "ref":
        return f"T{c['i']}"
    if c["k"] == "opt":
        return "?" + src_of(c["inner"])
    if c["k"] == "ptr":
        return f"^{'mut ' if c['mut'] else ''}" + src_of(c["inner"])
    if c["k"] == "array":
        return f"[{c['n']}]" + src_of(c["elem"])
    raise KeyError(c["k"])


def decl_src(i, t):
    k = t["k"]
    if k == "scalar":
        return f"T{i} :: {t['name']};"
    if k == "array":
        return f"T{i} :: [{t['n']}]{src_of(t['elem'])};"
    if k == "slice":
        return f"T{i} :: []{src_of(t['elem'])};"
    if k == "ptr":
        return f"T{i} :: ^{'mut ' if t['mut'] else ''}{src_of(t['inner'])};"
    if k == "opt":
        return f"T{i} :: ?{src_of(t['inner'])};"
    if k == "distinct":
        return f"T{i} :: distinct {src_of(t['inner'])};"
    if k == "alias":
        return f"T{i} :: T{t['of']};"
    if k == "struct":
        return f"T{i} :: struct {{ " + ", ".join(f"m{j}: {src_of(f)}" for j, f in enumerate(t["fields"])) + " };"
    if k == "enum":
        return f"T{i} :: enum {{ " + ", ".join(f"V{j}" + (f": {src_of(v['payload'])}" if v["payload"] else "") + (f" | {v['d']}" if v["d"] is not None else "") for j, v in enumerate(t["variants"])) + " };"
    return f"T{i} :: T{t['err']}!{src_of(t['ok'])};"


PRELUDE = """core :: #mod("core");
meta :: core.meta;
printf :: (fmt: str, n: i64) -> i32 extern;
addr :: (p: rawptr) -> i64 { i64.(core.ptr.to_raw(p)) }
"""


def P(e):
    return f'    printf("%ld\\n", i64.({e}));'


def build(case):
    tys = case["types"]
    m = Model(tys)
    lines, exp = [], []

    def emit(tag, e, v):
        lines.append(f'    core.libc.puts("{tag}");')
        lines.append(P(e))
        exp.append(tag)
        exp.append(str(int(v)))
    decls = [decl_src(i, t) for i, t in enumerate(tys)]
    lines.append("    buf : [1024]u8;")
    for i in case.get("order", range(len(tys))):
        t = tys[i]
        T = f"T{i}"
        me = {"k": "ref", "i": i}
        r = m.res(me)
        size, align = m.layout(me)
        stride = m.stride(me)
        emit(f"{T}.size", f"meta.size_of({T})", size)
        emit(f"{T}.stride", f"meta.stride_of({T})", stride)
        emit(f"{T}.align", f"meta.align_of({T})", align)
        emit(f"{T}.size@comptime", f"comptime {{ meta.size_of({T}) }}", size)
        emit(f"{T}.stride@comptime", f"comptime {{ meta.stride_of({T}) }}", stride)
        # address arithmetic: distance between two consecutive array elements is the stride
        if size > 0 and stride * 2 <= 1024:
            lines.append(f"    pa{i} : ^[2]{T} = ^[2]{T}.(rawptr.(^buf));")
            emit(f"{T}.stride@addresses", f"addr(rawptr.(^pa{i}[1])) - addr(rawptr.(^pa{i}[0]))", stride)
        k = r["k"]
        info = f"meta.get_type_info({T})"
        if k == "scalar" and r["name"] in INTS:
            emit(f"{T}.int.bits", f"switch v in {info} {{ .Int => i64.(v.bit_width), _ => -999 }}", INTS[r["name"]][0] * 8)
            emit(f"{T}.int.signed", f"switch v in {info} {{ .Int => i64.(v.signed), _ => -999 }}", INTS[r["name"]][1])
        elif k == "scalar" and r["name"] in ("f32", "f64"):
            emit(f"{T}.float.bits", f"switch v in {info} {{ .Float => i64.(v.bit_width), _ => -999 }}", 32 if r["name"] == "f32" else 64)
        elif k == "scalar":
            emit(f"{T}.kind", f"switch v in {info} {{ .{'Bool' if r['name'] == 'bool' else 'Char'} => 1, _ => -999 }}", 1)
        elif k == "array":
            emit(f"{T}.array.len", f"switch v in {info} {{ .Array => i64.(v.len), _ => -999 }}", r["n"])
            emit(f"{T}.array.sub", f"switch v in {info} {{ .Array => i64.(v.sub_ty == {src_of(r['elem'])}), _ => -999 }}", 1)
        elif k == "slice":
            emit(f"{T}.slice.sub", f"switch v in {info} {{ .Slice => i64.(v.sub_ty == {src_of(r['elem'])}), _ => -999 }}", 1)
        elif k == "ptr":
            emit(f"{T}.ptr.mutable", f"switch v in {info} {{ .Pointer => i64.(v.mutable), _ => -999 }}", r["mut"])
            emit(f"{T}.ptr.sub", f"switch v in {info} {{ .Pointer => i64.(v.sub_ty == {src_of(r['inner'])}), _ => -999 }}", 1)
        elif k == "distinct":
            emit(f"{T}.distinct.sub", f"switch v in {info} {{ .Distinct => i64.(v.sub_ty == {src_of(r['inner'])}), _ => -999 }}", 1)
            emit(f"{T}.distinct.differs", f"{T} == {src_of(r['inner'])}", 0)
        elif k == "struct":
            offs = m.offsets(r)
            emit(f"{T}.struct.members", f"switch v in {info} {{ .Struct => i64.(v.members.len), _ => -999 }}", len(r["fields"]))
            lines.append(f"    ps{i} : ^{T} = ^{T}.(rawptr.(^buf));")
            for j, f in enumerate(r["fields"]):
                emit(f"{T}.m{j}.offset", f"switch v in {info} {{ .Struct => i64.(v.members[{j}].offset), _ => -999 }}", offs[j])
                emit(f"{T}.m{j}.type", f"switch v in {info} {{ .Struct => i64.(v.members[{j}].ty == {src_of(f)}), _ => -999 }}", 1)
                lines.append(f'    core.libc.puts("{T}.m{j}.name");')
                lines.append(f'    switch v in {info} {{ .Struct => {{ core.libc.puts(v.members[{j}].name); }}, _ => {{ core.libc.puts("?"); }}, }};')
                exp.append(f"{T}.m{j}.name")
                exp.append(f"m{j}")
                if m.layout(f)[0] > 0:
                    emit(f"{T}.m{j}.offset@addresses", f"addr(rawptr.(^ps{i}.m{j})) - addr(rawptr.(ps{i}))", offs[j])
        elif k == "enum":
            ds = m.discriminants(r)
            emit(f"{T}.enum.variants", f"switch v in {info} {{ .Enum => i64.(v.variants.len), _ => -999 }}", len(r["variants"]))
            emit(f"{T}.enum.tag-offset", f"switch v in {info} {{ .Enum => i64.(v.discriminant_offset), _ => -999 }}", m.tag_offset(r))
            for j, v in enumerate(r["variants"]):
                vi = f"meta.get_type_info({T}.V{j})"
                emit(f"{T}.V{j}.discriminant", f"switch v in {vi} {{ .Variant => i64.(v.discriminant), _ => -999 }}", ds[j])
                if v["payload"]:
                    emit(f"{T}.V{j}.sub", f"switch v in {vi} {{ .Variant => i64.(v.sub_ty == {src_of(v['payload'])}), _ => -999 }}", 1)
                pl = v["payload"]
                if pl is None or (pl["k"] == "scalar" and pl["name"] not in ("f32", "f64")):
                    # store this variant, then look at the byte at the reported tag offset
                    init = f"{T}.V{j}" if pl is None else f"{T}.V{j}.({'true' if pl['name'] == 'bool' else 'char.(u8.(65))' if pl['name'] == 'char' else pl['name'] + '.(1)'})"
                    lines.append(f"    e{i}_{j} : {T} = {init};")
                    emit(f"{T}.V{j}.tag-byte@memory", f"core.ptr.read(rawptr.(^e{i}_{j}), switch v in {info} {{ .Enum => v.discriminant_offset, _ => 0 }})", ds[j])
        elif k == "opt":
            nz = m.is_ptr(r["inner"])
            emit(f"{T}.opt.sub", f"switch v in {info} {{ .Optional => i64.(v.sub_ty == {src_of(r['inner'])}), _ => -999 }}", 1)
            emit(f"{T}.opt.non-zero", f"switch v in {info} {{ .Optional => i64.(v.is_non_zero), _ => -999 }}", nz)
            if not nz:
                emit(f"{T}.opt.tag-offset", f"switch v in {info} {{ .Optional => i64.(v.discriminant_offset), _ => -999 }}", m.tag_offset(r))
                inner = m.res(r["inner"])
                if inner["k"] == "scalar" and inner["name"] in INTS:
                    lines.append(f"    o{i}s : {T} = {inner['name']}.(3);")
                    lines.append(f"    o{i}n : {T} = nil;")
                    emit(f"{T}.some.tag-byte@memory", f"core.ptr.read(rawptr.(^o{i}s), {m.tag_offset(r)})", 1)
                    emit(f"{T}.nil.tag-byte@memory", f"core.ptr.read(rawptr.(^o{i}n), {m.tag_offset(r)})", 0)
        elif k == "erru":
            emit(f"{T}.erru.err", f"switch v in {info} {{ .Error_Union => i64.(v.error_ty == T{r['err']}), _ => -999 }}", 1)
            emit(f"{T}.erru.ok", f"switch v in {info} {{ .Error_Union => i64.(v.payload_ty == {src_of(r['ok'])}), _ => -999 }}", 1)
            emit(f"{T}.erru.tag-offset", f"switch v in {info} {{ .Error_Union => i64.(v.discriminant_offset), _ => -999 }}", m.tag_offset(r))
    # type-value equality, pairwise
    n = len(tys)
    for i in range(n):
        for j in range(i, n):
            emit(f"T{i}==T{j}", f"T{i} == T{j}", m.decl_ident(i) == m.decl_ident(j))
    # an `any` carries the type of the value it was made from
    for i, t in enumerate(tys):
        r = m.res({"k": "ref", "i": i})
        if r["k"] == "scalar" and r["name"] in INTS:
            lines.append(f"    x{i} : T{i} = 1;")
            lines.append(f"    any{i} : any = x{i};")
            emit(f"any(T{i}).type", f"core.type_of(any{i}) == T{i}", 1)
            other = next((j for j in range(n) if m.decl_ident(j) != m.decl_ident(i)), None)
            if other is not None:
                emit(f"any(T{i}).type!=T{other}", f"core.type_of(any{i}) == T{other}", 0)
        elif t["k"] == "distinct" and t["inner"]["k"] == "scalar" and t["inner"]["name"] in INTS:
            # the distinct wrapper is part of the type an `any` carries
            lines.append(f"    x{i} : T{i} = T{i}.({t['inner']['name']}.(1));")
            lines.append(f"    any{i} : any = x{i};")
            emit(f"any(T{i}).type", f"core.type_of(any{i}) == T{i}", 1)
            emit(f"any(T{i}).type!=underlying", f"core.type_of(any{i}) == {t['inner']['name']}", 0)
    src = PRELUDE + "\n".join(decls) + "\nmain :: () {\n" + "\n".join(lines) + "\n}\n"
    return src, exp


def check(case, stats, scratch, profile):
    src, exp = build(case)
    stats.evaluations += 1
    kinds = sorted({t["k"] for t in case["types"]})
    for k in kinds:
        stats.cls("kind." + k)
    if len(kinds) >= 3 and any(t["depth"] >= 2 for t in case["types"]):
        stats.nontrivial.add(h64(src))
    replay = {"case": case}
    o = runner.run_case(scratch, {"main.capy": src}, compile_timeout=90)
    if o.kind in ("timeout", "exe-timeout"):
        stats.inconclusive += 1
        return
    decls = src[src.index("T0 ::"):src.index("main :: ()")]
    if o.kind == "crash":
        raise Fail(o.crash_key, f"compiler crashed\n{o.compiler_out[-1200:]}\n--- types ---\n{decls}", replay)
    if o.kind == "rejected":
        raise Fail("C18:rejected:" + runner.normalise_msg(o.errors[0] if o.errors else "?")[:70], f"the reflection program is rejected: {o.errors[:3]}\n{o.compiler_out[-1200:]}\n--- program ---\n{src}", replay)
    if o.kind != "ran":
        raise Fail(f"C18:{o.kind}", f"{o.brief()}\n--- types ---\n{decls}", replay)
    got = o.stdout.decode("utf-8", "replace").split("\n")
    for k in range(0, len(exp), 2):
        tag, want = exp[k], exp[k + 1]
        have_tag = got[k] if k < len(got) else "<missing>"
        have = got[k + 1] if k + 1 < len(got) else "<missing>"
        if have_tag != tag or have != want:
            what = tag.split(".", 1)[1] if "." in tag else ("type-equality" if "==" in tag else tag)
            what = "".join(ch for ch in what if not ch.isdigit())
            kind = next((m_["k"] for i_, m_ in enumerate(case["types"]) if tag.startswith(f"T{i_}.")), "")
            if "==" in tag and "." not in tag:
                # which two types: scalars by name, everything else by kind
                mm = Model(case["types"])
                names = []
                for part in tag.split("=="):
                    r_ = mm.res({"k": "ref", "i": int(part[1:])})
                    names.append(r_["name"] if r_["k"] == "scalar" else r_["k"])
                kind, what = "type-equality", "~".join(sorted(names))
            raise Fail(f"C18:{kind}:{what}", f"`{tag}`: the program prints {have!r} (after marker {have_tag!r}), the model says {want} (exit {o.status}, signal {o.signal})\n--- types ---\n{decls}", replay)
    if o.signal is not None or o.status != 0:
        raise Fail("C18:exit", f"all values as expected but the program ended with status {o.status} signal {o.signal}\n--- types ---\n{decls}", replay)
    stats.sample({"types": decls, "checked_values": len(exp) // 2})


def replay_payload(payload, scratch):
    st_ = core.Stats()
    try:
        check(payload["case"], st_, scratch, "replay")
    except Fail as f:
        return f.key
    return None


RULE = ("families of 4-9 declared types over scalars of every width, arrays, slices, pointers (mutable or not), optionals, named structs (1-4 fields), enums (1-4 variants, payloads, custom "
        "discriminants), distinct types, error unions and aliases, depth <= 2; per type 5-25 reflected values are compared with an independent layout / identity model, with the same queries "
        "at compile time, and with address arithmetic / memory reads on real storage; plus the full pairwise type-equality matrix and type_of(any). Non-trivial = >= 3 different kinds of type "
        "and a type of depth 2; distinct by program.")


def run(ctx):
    if ctx.replay:
        scratch = core.make_scratch("C18", "replay")
        payload = json.load(open(ctx.replay))
        ctx.evaluations = 1
        k = replay_payload(payload, scratch)
        if k:
            ctx.violations[k] = ("replayed case still fails", payload)
        shutil.rmtree(scratch, ignore_errors=True)
        return ctx.finish(RULE, False, [])
    total = 8000 if ctx.thorough else 480
    infra = core.hypothesis_search(ctx, "pyv.c18", total)
    scratch = core.make_scratch("C18", "kf")
    rc = ctx.finish(RULE, False, [
        "the layout model implements the documented rules (struct fields in order at their alignment, size not rounded up, stride = size rounded up to the alignment, tag byte right after the largest payload, ?pointer is pointer-sized)",
        "address arithmetic uses storage obtained by casting a byte buffer, so no values of the reflected types have to be constructed; tag bytes are read from real values of enums / optionals with scalar payloads",
    ], replayer=lambda p: replay_payload(p, scratch), min_nontrivial=50 if not ctx.collect_all() else 0)
    shutil.rmtree(scratch, ignore_errors=True)
    return 2 if infra and rc == 0 else rc
