"""C01 — well-typed programs are accepted and run exactly as the semantics prescribe."""
import json
from . import gen, interp, runner
from .core import Fail, h64
from .lang import program_src

PROFILES = ["scalars", "aggregates", "sums", "control", "functions", "pointers", "all", "equality", "probes"]


def cfg_for(profile, avoid=frozenset()):
    F = set(gen.FEATURES) - {"faults"}
    base = {"casts", "globals", "implicit-widening", "wide-ints"}
    if profile == "scalars":
        feats = base | {"loops", "block-exprs", "recursion"}
    elif profile == "aggregates":
        feats = base | {"structs", "arrays", "nested-aggregates", "distinct", "slices", "loops"}
    elif profile == "sums":
        feats = base | {"enums", "optionals", "error-unions", "switch", "try", "structs"}
    elif profile == "control":
        feats = base | {"loops", "labeled-blocks", "defer", "switch", "enums", "block-exprs", "optionals"}
    elif profile == "functions":
        feats = base | {"fn-pointers", "lambdas", "structs", "arrays", "recursion", "pointers", "slices"}
    elif profile == "pointers":
        feats = base | {"pointers", "structs", "arrays", "slices", "nested-aggregates"}
    elif profile == "faults":
        feats = F | {"faults"}
    else:
        feats = F
    return {"features": feats, "avoid": set(avoid)}


# open known findings the generator steers away from (so a shallow listed defect does not
# mask what lies behind it); the steering is switched off when the finding is no longer listed
AVOID_BY_KEY = {
    "codegen-error:unsupported:sdiv.i128": "divmod128",
    "crash:crates/hir_ty/src/globals.rs:expr #N was not given a type": "switch-array-arm",
}


def current_avoid():
    """generator steering for the C01 findings that are listed as open right now"""
    from .core import load_findings
    return {AVOID_BY_KEY[f["key"]] for f in load_findings("C01") if f.get("status") == "open" and f["key"] in AVOID_BY_KEY}


def count_lits(e):
    k = type(e).__name__
    if k == "Lit":
        return 1
    if k == "ArrLit":
        return sum(count_lits(x) for x in e.elems)
    if k == "StructLit":
        return sum(count_lits(x) for _, x in e.fields)
    if k in ("Coerce", "Cast"):
        return count_lits(e.e)
    if k == "VariantLit":
        return 0 if e.payload is None else count_lits(e.payload)
    return 0


def replace_lit(e, n):
    """copy of the literal tree `e` with its n-th scalar leaf changed; returns (copy, leaves consumed)"""
    from .lang import Lit, ArrLit, StructLit, Coerce, Cast, VariantLit, strip_distinct, Bool, Char
    k = type(e).__name__
    if k == "Lit":
        if n != 0:
            return e, 1
        t = strip_distinct(e.ty)
        if isinstance(t, Bool):
            return Lit(e.ty, not e.v), 1
        if isinstance(t, Char):
            return Lit(e.ty, (e.v + 1) % 256), 1
        return Lit(e.ty, e.v - 1 if e.v >= t.max else e.v + 1), 1
    if k == "ArrLit":
        out, used = [], 0
        for x in e.elems:
            y, u = replace_lit(x, n - used)
            out.append(y)
            used += u
        return ArrLit(e.ty, out), used
    if k == "StructLit":
        out, used = [], 0
        for name, x in e.fields:
            y, u = replace_lit(x, n - used)
            out.append((name, y))
            used += u
        return StructLit(e.ty, out), used
    if k == "Coerce":
        y, u = replace_lit(e.e, n)
        return Coerce(y, e.ty), u
    if k == "Cast":
        y, u = replace_lit(e.e, n)
        return Cast(e.ty, y), u
    if k == "VariantLit" and e.payload is not None:
        y, u = replace_lit(e.payload, n)
        return VariantLit(e.ty, y), u
    return e, 0


def equality_program(draw, avoid):
    """`==` / `!=` on whole aggregates: equal values, values differing in exactly one leaf, unrelated values"""
    from hypothesis import strategies as st
    from .lang import (Struct, Array, Slice, Opt, Let, Print, Bin, Var, Coerce, FnDecl, VOID, BOOL, I64, U64, U32, I32, U16, U8, is_scalar, strip_distinct)
    feats = set(gen.FEATURES) - {"faults", "pointers", "fn-pointers", "lambdas", "slices"}
    g = gen.G(draw, {"features": feats, "avoid": set(avoid)})
    g.make_types()
    body = []
    for k in range(g.int(1, 4)):
        how_t = g.int(0, 2)
        if how_t == 0:
            # elements whose size is not a multiple of their alignment: padding between elements
            S = Struct(g.fresh("Q"), [("m0", g.pick([I64, U32, U16, I32, U64])), ("m1", g.pick([U8, BOOL, U16, Array(3, U8)]))])
            g.p.types.append(S)
            T = Array(g.int(2, 5), S)
        else:
            T = None
            for _ in range(6):
                c = g.value_ty(2)
                if not is_scalar(strip_distinct(c)) and gen.eq_comparable(c):
                    T = c
                    break
            if T is None:
                T = Array(3, U8)
        v1 = g.leaf(T, [])
        n = count_lits(v1)
        how = g.int(0, 3)
        if how <= 1 and n:
            v2, _ = replace_lit(v1, g.int(0, n - 1))
            cls = "one-leaf-differs"
        elif how == 2:
            v2, cls = v1, "equal"
        else:
            v2, cls = g.leaf(T, []), "unrelated"
        a, b = f"qa{k}", f"qb{k}"
        body += [Let(a, T, True, v1), Let(b, T, True, v2)]
        body += [Print(Bin("==", Var(a, T), Var(b, T), BOOL)), Print(Bin("!=", Var(a, T), Var(b, T), BOOL)), Print(Bin("==", Var(a, T), Var(a, T), BOOL))]
        t0 = strip_distinct(T)
        if isinstance(t0, Array) and not isinstance(T, gen.Distinct) and g.chance(5):
            ST = Slice(t0.elem)
            body += [Let(f"sa{k}", ST, False, Coerce(Var(a, T), ST)), Let(f"sb{k}", ST, False, Coerce(Var(b, T), ST))]
            body += [Print(Bin("==", Var(f"sa{k}", ST), Var(f"sb{k}", ST), BOOL)), Print(Bin("!=", Var(f"sa{k}", ST), Var(f"sb{k}", ST), BOOL))]
        if g.chance(4) and not isinstance(t0, Opt):
            OT = Opt(T)
            body += [Let(f"oa{k}", OT, True, Coerce(Var(a, T), OT)), Let(f"ob{k}", OT, True, Coerce(Var(b, T), OT))]
            body += [Print(Bin("==", Var(f"oa{k}", OT), Var(f"ob{k}", OT), BOOL))]
        g.used.add("aggregate-eq")
        g.used.add("eq-" + cls)
        g.used.add("eq-type-" + type(t0).__name__)
    g.p.fns.append(FnDecl("main", [], VOID, body, None))
    g.p.used = g.used
    return g.p


def probe_program(draw, avoid):
    """small programs around two constructs the type-directed generator reaches rarely: a value switch whose named arms are
    narrower than its default arm, and functions with a variable number of arguments of a padded element type"""
    from .lang import (Struct, Enum, Slice, Opt, Let, Print, Var, Lit, Call, Coerce, FnDecl, SwitchE, VariantLit, VariantTy, While, Assign, Bin, Index, Len,
                       VOID, BOOL, I64, U64, U32, I32, U16, I16, U8, I8, USIZE, INTS, strip_distinct)
    feats = set(gen.FEATURES) - {"faults", "pointers", "fn-pointers", "lambdas", "slices"}
    g = gen.G(draw, {"features": feats, "avoid": set(avoid)})
    body = []
    for k in range(g.int(1, 3)):
        if g.int(0, 1) == 0:
            # --- value switch with narrow named arms and a wide default arm
            wide = g.pick([U16, U32, U64, I16, I32, I64])
            narrow = g.pick([t for t in INTS if t.signed == wide.signed and t.bits < wide.bits and t.name not in ("isize", "usize")])
            nv = g.int(2, 5)
            E = Enum(g.fresh("PE"), [(f"V{i}", g.pick([None, U8, U16, I32]), None) for i in range(nv)])
            g.p.types.append(E)
            named = g.int(1, nv - 1)
            arms = [(VariantTy(E, i), Lit(narrow, g.int(0, min(narrow.max, 100)))) for i in range(named)]
            arms.append(("default", Lit(wide, narrow.max + 1 + g.int(0, 1000))))
            fn = g.fresh("pw")
            annotated = g.chance(5)
            sw = SwitchE(Var("s", E), g.fresh("sw"), arms, wide)
            if annotated:
                g.p.fns.append(FnDecl(fn, [("s", E)], wide, [Let("x", wide, False, sw)], Var("x", wide)))
            else:
                g.p.fns.append(FnDecl(fn, [("s", E)], wide, [], sw))
            for i in range(nv):
                payload = E.variants[i][1]
                v = VariantLit(VariantTy(E, i), None if payload is None else Lit(payload, g.int(0, 50)))
                body.append(Print(Call(fn, [Coerce(v, E)], wide)))
            g.used.add("switch-join-widening")
        else:
            # --- variadic function over a padded element type
            which = g.int(0, 2)
            if which == 0:
                T = Opt(g.pick([I32, U16, I64, U8]))
            elif which == 1:
                T = Struct(g.fresh("PV"), [("m0", g.pick([I64, U32])), ("m1", g.pick([U8, BOOL, U16]))])
                g.p.types.append(T)
            else:
                T = g.pick([U8, I32, I64])
            fn = g.fresh("pv")
            ST = Slice(T)
            loop_body = [Assign(Var("i", USIZE), "+", Lit(USIZE, 1))] + g.print_value(Index(Var("vals", ST), Bin("-", Var("i", USIZE), Lit(USIZE, 1), USIZE), T), T)
            fbody = [Print(Var("first", I64)), Print(Len(Var("vals", ST), USIZE)), Let("i", USIZE, True, Lit(USIZE, 0)),
                     While(None, Bin("<", Var("i", USIZE), Len(Var("vals", ST), USIZE), BOOL), loop_body)]
            f = FnDecl(fn, [("first", I64), ("vals", ST)], VOID, fbody, None)
            f.variadic = True
            g.p.fns.append(f)
            for _ in range(g.int(1, 3)):
                n_args = g.int(0, 4)
                from .lang import ExprS
                body.append(ExprS(Call(fn, [Lit(I64, g.int(0, 99))] + [g.leaf(T, []) for _ in range(n_args)], VOID)))
            g.used.add("varargs")
            g.used.add("varargs-" + type(strip_distinct(T)).__name__)
    g.p.fns.append(FnDecl("main", [], VOID, body, None))
    g.p.used = g.used
    return g.p


def strategy(profile):
    from .core import load_findings
    if profile == "probes":
        from hypothesis import strategies as st
        return st.composite(lambda draw: probe_program(draw, current_avoid()))()
    if profile == "equality":
        from hypothesis import strategies as st
        av = {AVOID_BY_KEY[f["key"]] for f in load_findings("C01") if f.get("status") == "open" and f["key"] in AVOID_BY_KEY}
        return st.composite(lambda draw: equality_program(draw, av))()
    avoid = {AVOID_BY_KEY[f["key"]] for f in load_findings("C01") if f.get("status") == "open" and f["key"] in AVOID_BY_KEY}
    return gen.programs(cfg_for(profile, avoid))


def expected(p):
    it = interp.Interp(p)
    out, status, fault = it.run_main()
    return it, out, status, fault


def check(p, stats, scratch, profile):
    src = program_src(p)
    try:
        it, out, status, fault = expected(p)
    except interp.StepLimit:
        stats.cls("interp-step-limit")
        return
    stats.evaluations += 1
    o = runner.run_case(scratch, {"main.capy": src})
    replay = {"files": {"main.capy": src}, "expect": {"stdout": out, "status": status, "fault": fault}}
    feats = sorted(getattr(p, "used", set()))
    nontrivial = it.stmts_executed >= 8 and len(feats) >= 3 or (profile == "equality" and "eq-one-leaf-differs" in feats) or profile == "probes"
    if nontrivial:
        stats.nontrivial.add(h64(src))
    stats.cls("profile." + profile)
    for f in feats:
        stats.cls("feature." + f)
    if fault:
        stats.cls("expected-fault")
    if o.kind == "crash":
        raise Fail(o.crash_key, f"compiler crashed on a well-typed program\n{o.compiler_out[-1500:]}\n--- program ---\n{src}", replay)
    if o.kind == "rejected":
        key = "C01:rejected:" + runner.normalise_msg(o.errors[0] if o.errors else "no message")[:90]
        raise Fail(key, f"well-typed program rejected\n{o.compiler_out[-1500:]}\n--- program ---\n{src}", replay)
    if o.kind in ("timeout", "exe-timeout"):
        stats.inconclusive += 1
        return
    if o.kind != "ran":
        raise Fail("C01:" + o.kind, f"{o.kind}\n{o.compiler_out[-1500:]}\n--- program ---\n{src}", replay)
    got = o.stdout.decode("utf-8", "replace")
    if fault:
        ok = got.startswith(out) and fault.split()[-1] in got[len(out):] or (got.startswith(out) and "unwrap" in fault and "#unwrap" in got)
        if not (ok and o.status == 1):
            raise Fail("C01:fault-mismatch", f"expected fault `{fault}` after stdout {out!r}, status 1; got status {o.status} signal {o.signal} stdout {got!r}\n--- program ---\n{src}", replay)
    else:
        if o.signal is not None:
            raise Fail(f"C01:exe-signal-{o.signal}", f"executable died with signal {o.signal}; stdout {got[-300:]!r}\n--- program ---\n{src}", replay)
        if got != out:
            raise Fail("C01:stdout-mismatch", f"stdout differs\n expected: {out!r}\n got:      {got!r}\n--- program ---\n{src}", replay)
        if o.status != status:
            raise Fail("C01:status-mismatch", f"exit status {o.status}, expected {status}\n--- program ---\n{src}", replay)
    if nontrivial:
        stats.sample({"program": src, "stdout": out, "status": status})


def replay_payload(payload, scratch):
    """re-runs a stored case against the stored expectation; returns the failure key or None"""
    o = runner.run_case(scratch, payload["files"])
    exp = payload["expect"]
    if o.kind == "crash":
        return o.crash_key
    if o.kind == "rejected":
        return "C01:rejected:" + runner.normalise_msg(o.errors[0] if o.errors else "no message")[:90]
    if o.kind != "ran":
        return "C01:" + o.kind
    got = o.stdout.decode("utf-8", "replace")
    if exp.get("fault"):
        if not (got.startswith(exp["stdout"]) and o.status == 1):
            return "C01:fault-mismatch"
        return None
    if o.signal is not None:
        return f"C01:exe-signal-{o.signal}"
    if got != exp["stdout"]:
        return "C01:stdout-mismatch"
    if o.status != exp["status"]:
        return "C01:status-mismatch"
    return None


RULE = ("whole programs generated type-directed by construction from the fragment (profiles: scalars, aggregates, sums, control, "
        "functions, pointers, all, equality = `==`/`!=` on whole arrays / structs / enums / optionals / slices whose values are equal, differ in exactly one leaf, or are unrelated; probes = value switches whose named arms are narrower than the default arm, and variadic functions over padded element types), compiled by the real CLI and executed; oracle = reference interpreter (stdout + exit status). "
        "Non-trivial = the interpreter executed >= 8 statements and the program uses >= 3 feature classes (equality profile: a pair differing in exactly one leaf); distinct by source hash.")


def run(ctx):
    from . import core
    import os, shutil
    if ctx.replay:
        scratch = core.make_scratch("C01", "replay")
        payload = json.load(open(ctx.replay))
        ctx.evaluations = 1
        k = replay_payload(payload, scratch)
        if k:
            ctx.violations[k] = ("replayed case still fails", payload)
        shutil.rmtree(scratch, ignore_errors=True)
        return ctx.finish(RULE, False, [])
    total = 16000 if ctx.thorough else 960
    infra = core.hypothesis_search(ctx, "pyv.c01", total, profiles=PROFILES)
    scratch = core.make_scratch("C01", "kf")
    rc = ctx.finish(RULE, False, [
        "the reference interpreter (pyv/interp.py) defines the expected behaviour; it is written from README.md and the repo's tests, not from the compiler",
        "only behaviour the documents fix is generated: no division by a possibly-zero divisor, shifts < width, bounded loops, at most one effectful call per expression",
    ], replayer=lambda payload: replay_payload(payload, scratch), min_nontrivial=10 if not ctx.collect_all() else 0)
    shutil.rmtree(scratch, ignore_errors=True)
    return 2 if infra and rc == 0 else rc
